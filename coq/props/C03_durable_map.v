(* C03 (container level, ORDERED MAPS) — "After any successful commit, a brand-new storage
   instance opened over the same ledger registers reconstructs every live container with exactly
   the content it had at commit time, using nothing but those registers."

   This file composes
     - the map slab-tree model (MapTree.v), which LOGS the storeSlab / Storage.Remove calls it
       issues, with its frame theorem (C03_map.v: a slab not named in the log is unchanged, ...),
     - the storage model (Storage.v: write set / cache / ledger) with its commit theorems,
     - the dictionary refinement (C02.v),
   into one statement about the ledger.  Vocabulary (theories/DurableMap.v):

   [shallow]               a slab's OWN content (MapFrame_proofs): data slab = header, sibling link,
                           elements with every external collision group reduced to a REFERENCE
                           (slab index); external collision-group slab = its elements; index slab =
                           header and child-header copies
   [mflatten n]            all slabs of tree n, external collision-group slabs included
   [mload fuel m id]       the reader: rebuilds a tree from a slab map m by following the slab
                           identifiers of child-header copies and the references of external
                           collision groups ([unstrip_g]); [mload_map] also returns the element count
                           found in the root slab; [mdepth n] = nesting depth of n (fuel that suffices)
   [mslab_codec]           K = (menc, mdec, proof of mdec (menc x) = Some x); [mg_codec] is a concrete
                           one (prefix code of the content, then a self-delimiting bit code), total
   [msops addr cont lg]    the storage calls of a log; [minit_sops]/[mhist_sops] of NewMap / of a
                           history: every store carries the slab's content at the END of the operation
                           that issued it (Go slab objects are shared by pointer); [mfinal_sops]: the
                           same calls with the content at the end of the WHOLE history (commit-time
                           encoding); both leave the same ledger (C03_map_store_time_irrelevant)
   [mholds_exactly K M t]  M id = the encoding of the exact own content of slab id of t (root slab
                           with the element count) for every slab of t — data, index and external
                           collision-group slabs — and M id = None for every other id
   The map's address is fresh in the starting state s0; everything under other addresses in s0 is
   arbitrary.  Preconditions on operations: C02's [mop_ok] (what Storable() guarantees for Set). *)
From stdpp Require Import gmap sorting.
From Coq Require Import ZArith NArith List Bool.
From AtreeModel Require Import Storage StorageSpec Settings Durable.
From AtreeProofs Require Import Storage_proofs Commit_proofs StorageProps_proofs Durable_proofs.
From AtreeModel Require Import MapElems MapElemsInv MapTree MapTreeInv DurableMap.
From AtreeProofs Require Import MapFrame_proofs Map_proofs DurableMap_proofs.
Local Open Scope N_scope.

(** M1 (C01: "can always be reopened by its root identifier"): every reachable map is rebuilt
    exactly from the list of its own slabs, starting from the root identifier *)
Theorem C01_map_reopen_by_root : forall T dg levels limit ks rootid ops,
  valid_T T -> (1 <= levels)%nat -> 0 < rootid -> Forall (mop_ok T ks) ops ->
  let c := set_threshold T in
  let t := fst (mt_run dg levels (cinl_melem c) limit c (fst (mt_init rootid)) ops) in
  forall fuel, (mdepth (t_root t) <= fuel)%nat ->
    mload fuel (assoc (mflatten (t_root t))) rootid = Some (t_root t).
Proof. exact mreach_load_flatten. Qed.

(* for any tree with unique slab ids whose child-header copies name the children; the element
   structure is arbitrary (external collision groups at any depth, nested) *)
Theorem C01_mload_flatten : forall n fuel,
  NoDup (mslab_ids n) -> mhdrs_ok n -> (mdepth n <= fuel)%nat ->
  mload fuel (assoc (mflatten n)) (nid n) = Some n.
Proof. exact mload_flatten. Qed.

(** M2: replaying the logs of a history from creation against an empty slab map gives a map that
    holds every slab of the final tree with its exact content (the count at the root) and nothing
    else — for every configuration and digest function *)
Theorem C03_map_log_replay : forall dg levels max_inline_elem limit c rootid ops, 0 < rootid ->
  let t := fst (mt_run dg levels max_inline_elem limit c (fst (mt_init rootid)) ops) in
  let m := mreplay dg levels max_inline_elem limit c mcell_of (fst (mt_init rootid)) ops (minit_map mcell_of rootid) in
  forall id, m id = mcontent t id.
Proof. exact mreach_run_represents. Qed.

(* one operation *)
Theorem C03_map_log_replay_step : forall dg levels max_inline_elem limit c rootid ops o m, 0 < rootid ->
  let t := fst (mt_run dg levels max_inline_elem limit c (fst (mt_init rootid)) ops) in
  forall t' out lg, mt_step dg levels max_inline_elem limit c t o = (t', out, lg) ->
    mrep m t -> mrep (mapply_log_tree t' lg m) t'.
Proof. exact mreach_step_represents. Qed.

(** M3: the statement of C03 for maps.  Any legal slab size T, any digest function, any codec K,
    any owned address, any reachable storage state s0 in which the address is fresh, any history of
    admissible operations: issue the logged calls, commit without fault, re-create the storage.
    Then the new instance has an empty write set and cache, the registers under the address hold
    exactly the map, the reader gets the tree and the count from the root identifier and the
    registers alone, and the entries of that tree are the dictionary of the specification (C02) in
    canonical order. *)
Theorem C03_map_commit_durable : forall K T dg levels limit ks addr rootid s0 ops,
  valid_T T -> (1 <= levels)%nat -> addr <> 0 -> 0 < rootid ->
  reachable s0 -> (forall id, view s0 (addr, id) = None) ->
  Forall (mop_ok T ks) ops ->
  let c := set_threshold T in
  let t0 := fst (mt_init rootid) in
  let t := fst (mt_run dg levels (cinl_melem c) limit c t0 ops) in
  let s1 := fst (run s0 (minit_sops K addr rootid ++ mhist_sops dg levels (cinl_melem c) limit c K addr t0 ops)) in
  let s' := fst (step (fst (step s1 (SFastCommit None))) SRecreate) in
  deltas s' = ∅ /\ cache s' = ∅ /\
  (forall id, view s' (addr, id) = base s' !! (addr, id)) /\
  mholds_exactly K (ledger_map s' addr) t /\
  (forall fuel, (mdepth (t_root t) <= fuel)%nat ->
     mload_map fuel (mdecode_map K (ledger_map s' addr)) rootid = Some (t_root t, t_count t)) /\
  to_list_tree (t_root t) = fst (d_run dg levels limit [] ops) /\
  t_count t = N.of_nat (length (fst (d_run dg levels limit [] ops))).
Proof. intros K T dg levels limit ks. exact (mcommit_durable K T dg levels limit ks). Qed.

(* the calls carrying commit-time contents (pointer semantics) leave the same ledger *)
Theorem C03_map_store_time_irrelevant : forall dg levels max_inline_elem limit c K addr rootid ops s0,
  addr <> 0 -> 0 < rootid -> reachable s0 ->
  base (fst (step (fst (run s0 (mfinal_sops dg levels max_inline_elem limit c K addr rootid ops))) (SFastCommit None))) =
  base (fst (step (fst (run s0 (minit_sops K addr rootid ++
                                mhist_sops dg levels max_inline_elem limit c K addr (fst (mt_init rootid)) ops))) (SFastCommit None))).
Proof. exact mfinal_sops_same_ledger. Qed.

(** further map operations WITHOUT a commit (any operations, [ops2] is not restricted) do not
    reach the ledger: a brand-new storage still loads the map as of the commit *)
Theorem C03_map_crash : forall K T dg levels limit ks addr rootid s0 ops1 ops2,
  valid_T T -> (1 <= levels)%nat -> addr <> 0 -> 0 < rootid ->
  reachable s0 -> (forall id, view s0 (addr, id) = None) ->
  Forall (mop_ok T ks) ops1 ->
  let c := set_threshold T in
  let t0 := fst (mt_init rootid) in
  let t1 := fst (mt_run dg levels (cinl_melem c) limit c t0 ops1) in
  let s1 := fst (run s0 (minit_sops K addr rootid ++ mhist_sops dg levels (cinl_melem c) limit c K addr t0 ops1)) in
  let s2 := fst (step s1 (SFastCommit None)) in
  let s3 := fst (run s2 (mhist_sops dg levels (cinl_melem c) limit c K addr t1 ops2)) in
  let s' := fst (step s3 SRecreate) in
  base s3 = base s2 /\ base s' = base s2 /\
  mholds_exactly K (ledger_map s' addr) t1 /\
  (forall fuel, (mdepth (t_root t1) <= fuel)%nat ->
     mload_map fuel (mdecode_map K (ledger_map s' addr)) rootid = Some (t_root t1, t_count t1)) /\
  to_list_tree (t_root t1) = fst (d_run dg levels limit [] ops1).
Proof. intros K T dg levels limit ks. exact (mcrash_durable K T dg levels limit ks). Qed.

(** M4: commits anywhere.  [l1]: operations and commits in any order; then a commit; then [l2]:
    operations without commit; then a brand-new storage: the ledger holds the map as of the last
    commit.  ([mdrun] threads the map and the storage through the history.) *)
Theorem C03_map_last_commit : forall K T dg levels limit ks addr rootid s0 l1 l2,
  valid_T T -> (1 <= levels)%nat -> addr <> 0 -> 0 < rootid ->
  reachable s0 -> (forall id, view s0 (addr, id) = None) ->
  Forall (mop_ok T ks) (mops_of l1) -> mno_commit l2 = true ->
  let c := set_threshold T in
  let t0 := fst (mt_init rootid) in
  let t1 := fst (mt_run dg levels (cinl_melem c) limit c t0 (mops_of l1)) in
  let st1 := mdrun dg levels (cinl_melem c) limit c K addr t0 (fst (run s0 (minit_sops K addr rootid))) l1 in
  let st2 := mdrun dg levels (cinl_melem c) limit c K addr (fst st1) (fst (step (snd st1) (SFastCommit None))) l2 in
  let s' := fst (step (snd st2) SRecreate) in
  fst st1 = t1 /\
  fst st2 = fst (mt_run dg levels (cinl_melem c) limit c t0 (mops_of l1 ++ mops_of l2)) /\
  base (snd st2) = base (fst (step (snd st1) (SFastCommit None))) /\
  deltas s' = ∅ /\ cache s' = ∅ /\ base s' = base (fst (step (snd st1) (SFastCommit None))) /\
  (forall id, view s' (addr, id) = base s' !! (addr, id)) /\
  mholds_exactly K (ledger_map s' addr) t1 /\
  (forall fuel, (mdepth (t_root t1) <= fuel)%nat ->
     mload_map fuel (mdecode_map K (ledger_map s' addr)) rootid = Some (t_root t1, t_count t1)) /\
  to_list_tree (t_root t1) = fst (d_run dg levels limit [] (mops_of l1)) /\
  t_count t1 = N.of_nat (length (fst (d_run dg levels limit [] (mops_of l1)))).
Proof. intros K T dg levels limit ks. exact (mlast_commit_durable K T dg levels limit ks). Qed.

(** a codec exists: the concrete decoder inverts the concrete encoder on every slab content *)
Theorem C03_map_codec : forall x, mg_dec (mg_enc x) = Some x.
Proof. exact mg_dec_enc. Qed.

(** Non-vacuity, at T = 256, address 5, root identifier 1, concrete codec, from the empty storage,
    first-level digest k / 10 (keys 10 11 12 and 20 21 collide).  History: 16 inserts (the colliding
    keys spill into the external collision-group slabs 2 and 6, the root splits into an index slab
    over leaves 3 4 5), then 8 removes (group 6 collapses and its slab is released; leaf 5 is
    merged away).  After commit and re-creation the ledger has exactly the registers 1 (index), 3 4
    (data), 2 (external collision group); the reader follows the reference to slab 2 and returns the
    model's tree and count 8; uncommitted further operations (PopIterate) change nothing. *)
Definition mx_c := set_threshold 256.
Definition mx_M := cinl_melem mx_c.
Definition mx_dg (k : N) (l : nat) : N := match l with O => k / 10 | 1%nat => k mod 10 | _ => k end.
Definition mx_ks (_ : N) : N := 9.
Definition mx_set (k : N) : mop := OSet (mkkv k 9) (mkkv (k + 1000) 40).
Definition mx_ops : list mop :=
  map mx_set [10; 11; 12; 20; 30; 40; 50; 60; 70; 80; 90; 100; 110; 120; 130; 21] ++
  map ORemove [21; 110; 100; 90; 80; 70; 60; 50].
Definition mx_t0 := fst (mt_init 1).
Definition mx_t := fst (mt_run mx_dg 4 mx_M 8 mx_c mx_t0 mx_ops).
Definition mx_s1 := fst (run st_init (minit_sops mg_codec 5 1 ++ mhist_sops mx_dg 4 mx_M 8 mx_c mg_codec 5 mx_t0 mx_ops)).
Definition mx_s2 := fst (step mx_s1 (SFastCommit None)).
Definition mx_s' := fst (step mx_s2 SRecreate).
Definition mx_s3 := fst (run mx_s2 (mhist_sops mx_dg 4 mx_M 8 mx_c mg_codec 5 mx_t [OPop; mx_set 7])).
Definition is_ext (e : melem) : bool := match e with EGroup (Some _) _ => true | _ => false end.

Lemma mx_ops_ok : Forall (mop_ok 256 mx_ks) mx_ops.
Proof.
  unfold mx_ops. apply Forall_app; split.
  - rewrite Forall_map. rewrite Forall_forall. intros k _. split; [reflexivity|]. vm_compute. discriminate.
  - rewrite Forall_map. rewrite Forall_forall. intros; exact I.
Qed.

Example C03_durable_map_example :
  valid_T 256 /\ reachable st_init /\ (forall id, view st_init (5, id) = None) /\
  Forall (mop_ok 256 mx_ks) mx_ops /\
  (* the history spills, splits, collapses and merges *)
  removed (mall_logs mx_dg 4 mx_M 8 mx_c mx_t0 mx_ops) = [6; 5] /\
  mslab_ids (t_root mx_t) = [1; 3; 2; 4] /\ tree_ids (t_root mx_t) = [1; 3; 4] /\
  existsb is_ext (g_elems (elems_of_tree (t_root mx_t))) = true /\
  mdepth (t_root mx_t) = 6%nat /\
  (* the write set before the commit, the ledger after *)
  map (fun id => match deltas mx_s1 !! (5, id) with Some (Some _) => 1 | Some None => 2 | None => 0 end)
      [1; 2; 3; 4; 5; 6; 7] = [1; 1; 1; 1; 2; 2; 0] /\
  map (fun id => match base mx_s' !! (5, id) with Some v => v_sz v | None => 999 end)
      [1; 2; 3; 4; 5; 6; 7] = [48; 200; 171; 200; 999; 999; 999] /\
  length (map_to_list (base mx_s')) = 4%nat /\
  (* the reader *)
  mload_map 6 (mdecode_map mg_codec (ledger_map mx_s' 5)) 1 = Some (t_root mx_t, 8) /\
  mload_map 2 (mdecode_map mg_codec (ledger_map mx_s' 5)) 1 = None /\
  to_list_tree (t_root mx_t) = fst (d_run mx_dg 4 8 [] mx_ops) /\
  (* not committed: not durable *)
  mslab_ids (t_root (fst (mt_run mx_dg 4 mx_M 8 mx_c mx_t [OPop; mx_set 7]))) = [1] /\
  view mx_s3 (5, 2) = None /\
  mload_map 6 (mdecode_map mg_codec (ledger_map (fst (step mx_s3 SRecreate)) 5)) 1 = Some (t_root mx_t, 8) /\
  (* commit-time contents: same ledger *)
  base (fst (step (fst (run st_init (mfinal_sops mx_dg 4 mx_M 8 mx_c mg_codec 5 1 mx_ops))) (SFastCommit None))) = base mx_s2.
Proof.
  split; [vm_compute; split; congruence|].
  split; [exists []; reflexivity|].
  split; [intros id; reflexivity|].
  split; [exact mx_ops_ok|].
  vm_compute. repeat (split; [exact eq_refl|]). exact eq_refl.
Qed.

(* M4, concretely: commit after 10 operations, 14 more operations, commit, PopIterate without
   commit, brand-new storage: the map as of the second commit *)
Example C03_map_last_commit_example :
  let l1 := map MOp (firstn 10 mx_ops) ++ [MCommit] ++ map MOp (skipn 10 mx_ops) in
  let l2 := [MOp OPop] in
  let st1 := mdrun mx_dg 4 mx_M 8 mx_c mg_codec 5 mx_t0 (fst (run st_init (minit_sops mg_codec 5 1))) l1 in
  let st2 := mdrun mx_dg 4 mx_M 8 mx_c mg_codec 5 (fst st1) (fst (step (snd st1) (SFastCommit None))) l2 in
  let s' := fst (step (snd st2) SRecreate) in
  mops_of l1 = mx_ops /\ mno_commit l2 = true /\
  mslab_ids (t_root (fst st2)) = [1] /\
  mload_map 6 (mdecode_map mg_codec (ledger_map s' 5)) 1 = Some (t_root mx_t, 8).
Proof. vm_compute. repeat split. Qed.

(* the reader really follows the group references: with slab 2 missing from the map the data slab
   that references it cannot be rebuilt; and [mhdrs_ok] cannot be dropped (as for arrays) *)
Example C01_mload_needs_group_slab :
  let g := HKey 1 [0; 1] [ESingle (mkkv 10 9) (mkkv 1010 40); ESingle (mkkv 11 9) (mkkv 1011 40)] 124 in
  let n := MD (mkmhdr 1 39 1) 0 (HKey 0 [1] [EGroup (Some 2) g] 37) in
  mflatten n = [(1, SD (mkmhdr 1 39 1) 0 (HKey 0 [1] [EGroup (Some 2) (SList 0 [] 0)] 37)); (2, SG g)] /\
  mload 5 (assoc (mflatten n)) 1 = Some n /\
  mload 5 (assoc [hd (0, SG g) (mflatten n)]) 1 = None /\
  (let n2 := MM (mkmhdr 1 0 0) [mkmhdr 9 0 0] [MD (mkmhdr 2 0 0) 0 (HKey 0 [] [] 0)] in
   shape n2 /\ NoDup (mslab_ids n2) /\ ~ mhdrs_ok n2 /\ mload 5 (assoc (mflatten n2)) 1 = None).
Proof.
  cbn zeta. split; [reflexivity|]. split; [reflexivity|]. split; [reflexivity|].
  split; [cbn; repeat split; congruence|]. split; [repeat constructor; cbn; intuition congruence|].
  split; [intros [H _]; discriminate H|reflexivity].
Qed.

Print Assumptions C01_map_reopen_by_root.
Print Assumptions C01_mload_flatten.
Print Assumptions C03_map_log_replay.
Print Assumptions C03_map_log_replay_step.
Print Assumptions C03_map_commit_durable.
Print Assumptions C03_map_store_time_irrelevant.
Print Assumptions C03_map_crash.
Print Assumptions C03_map_last_commit.
Print Assumptions C03_map_codec.
