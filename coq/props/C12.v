(* C12 — maps stay correct under arbitrary hash collisions and enforce the collision limit
   (element level).  Dictionary semantics and validity of the structure for EVERY digest assignment
   are C02_elems_refines_dictionary / C02_elems_step (they quantify over all dg and all limits);
   this file adds the limit, the acceptance of updates and the group shapes. *)
From Coq Require Import ZArith NArith List Bool.
From AtreeGen Require Import Consts.
From AtreeModel Require Import MapElems MapElemsInv.
From AtreeProofs Require Import MapElems_proofs.
Import ListNotations.
Local Open Scope N_scope.

(* Inserting a key that is NOT in the map: it is refused with the collision-limit error exactly when
   [fanout] = the number of distinct second-level digests among the stored keys sharing the key's
   first-level digest (computed from the entry list and dg only) is at least limit + 1; a refusal
   leaves the whole state unchanged and touches no slab; otherwise the key is inserted at its
   canonical position and "no previous value" is returned. *)
Theorem C12_limit_enforced :
  forall dg levels max_inline_elem limit s k v, (1 <= levels)%nat -> mwf dg levels s ->
    d_get (to_list (m_root s)) (kid k) = None ->
    let r := m_step dg levels max_inline_elem limit s (OSet k v) in
    (limit + 1 <= N.of_nat (fanout dg levels (to_list (m_root s)) (dg (kid k) 0%nat)) <-> snd (fst r) = RErr ECollisionLimit) /\
    (snd (fst r) = RErr ECollisionLimit -> fst (fst r) = s /\ snd r = []) /\
    (snd (fst r) <> RErr ECollisionLimit ->
       snd (fst r) = RPrev None /\ to_list (m_root (fst (fst r))) = d_ins dg levels (to_list (m_root s)) k v).
Proof. intros. apply limit_enforced; assumption. Qed.

(* Updating an existing key is always accepted, whatever the limit and the collisions *)
Theorem C12_updates_accepted :
  forall dg levels max_inline_elem limit s k v p, (1 <= levels)%nat -> mwf dg levels s ->
    d_get (to_list (m_root s)) (kid k) = Some p ->
    let r := m_step dg levels max_inline_elem limit s (OSet k v) in
    snd (fst r) = RPrev (Some (snd p)) /\
    to_list (m_root (fst (fst r))) = d_replace (to_list (m_root s)) (kid k) v /\
    mwf dg levels (fst (fst r)).
Proof. intros. apply updates_accepted; assumption. Qed.

(* Insert / update / remove of colliding keys keep the structure valid (any dg) *)
Theorem C12_structure_preserved :
  forall dg levels max_inline_elem limit s o, (1 <= levels)%nat -> mwf dg levels s ->
    match o with OSet _ _ | ORemove _ | OPop => True | _ => False end ->
    mwf dg levels (fst (fst (m_step dg levels max_inline_elem limit s o))).
Proof.
  intros dg levels mi lim s o Hlv Hs Ho.
  apply (m_step_refines_all dg levels mi lim s o Hlv Hs).
Qed.

(* Shapes in any well-formed structure: the element under a digest is a single element iff exactly
   one key has that digest prefix; a group has at least two keys, is never a group around one single
   non-group element (the collapse rule), its elements are one level deeper, and it is external only
   at the first level. *)
Theorem C12_group_shapes :
  forall dg levels l h e, ewf_e dg levels l h e ->
    match e with
    | ESingle _ _ => length (to_list_e e) = 1%nat
    | EGroup loc g => (2 <= length (to_list_e e))%nat /\ not_collapsed g /\ mlevel g = S l /\ (loc <> None -> l = 0%nat)
    end.
Proof. exact elem_shape. Qed.

(* Spill rule as coded: after a successful Set inside an inline group the group moves to its own slab
   (consuming one slab identifier) iff it is a first-level group AND its new encoded size exceeds
   max_inline_elem; an external group never comes back inline on Set (it stays [EGroup (Some id)]). *)
Theorem C12_spill_rule :
  forall dg levels max_inline_elem limit f g l k v a g' prev a' evs, (l < levels)%nat ->
    set_elems dg levels max_inline_elem limit f g (S l) k v a = inr (g', prev, a', evs) ->
    set_elem dg levels max_inline_elem limit (S f) (EGroup None g) l k v a =
    if (l =? 0)%nat && (max_inline_elem <? c_inlineCollisionGroupPrefixSize + msize g')
    then inr (EGroup (Some a') g', prev, a' + 1, evs ++ [WStore a'])
    else inr (EGroup None g', prev, a', evs).
Proof. exact spill_rule. Qed.

(* Every first-level INLINE group fits the inline-element limit, in every reachable state (a group
   that grows beyond it is spilled by the Set that made it grow; removals below the first level never
   grow an element).  The converse does not hold in the Go code (an external group that shrank is not
   brought back inline - the TODO in externalCollisionGroup.Remove) and is not claimed. *)
Theorem C12_inline_groups_bounded :
  forall dg levels max_inline_elem limit next ops, (1 <= levels)%nat ->
    inl_ok max_inline_elem (m_root (fst (m_run dg levels max_inline_elem limit (m_init next) ops))).
Proof.
  intros dg levels mi lim next ops Hlv.
  apply m_run_inl_ok; [assumption|apply ewf_init; assumption|constructor].
Qed.

Theorem C12_inline_groups_bounded_step :
  forall dg levels max_inline_elem limit s o, mwf dg levels s -> inl_ok max_inline_elem (m_root s) ->
    inl_ok max_inline_elem (m_root (fst (fst (m_step dg levels max_inline_elem limit s o)))).
Proof. exact m_step_inl_ok. Qed.

(* non-vacuity and a concrete refusal: limit 1; the digest 0 of the first level is shared by keys with
   second-level digests {1, 3} -> fanout 2 >= limit + 1 -> key 41 (absent) is refused, while
   overwriting key 12 (present, same first-level digest) is accepted *)
Definition ex_dg (k : N) (l : nat) : N := match l with 0%nat => k / 100 | 1%nat => (k / 10) mod 10 | _ => 0 end.
Example C12_example :
  let K i := mkkv i 3 in
  let ops := [OSet (K 11) (mkkv 1 5); OSet (K 12) (mkkv 2 5); OSet (K 31) (mkkv 3 5)] in
  let s := fst (m_run ex_dg 4 60 1 (m_init 0) ops) in
  mwf ex_dg 4 s /\
  fanout ex_dg 4 (to_list (m_root s)) 0 = 2%nat /\
  snd (fst (m_step ex_dg 4 60 1 s (OSet (K 41) (mkkv 9 5)))) = RErr ECollisionLimit /\
  snd (fst (m_step ex_dg 4 60 1 s (OSet (K 12) (mkkv 9 5)))) = RPrev (Some (mkkv 2 5)).
Proof.
  cbn zeta. split; [|vm_compute; repeat split].
  apply m_run_refines_all; [repeat constructor|apply ewf_init; repeat constructor].
Qed.

Print Assumptions C12_limit_enforced.
Print Assumptions C12_updates_accepted.
Print Assumptions C12_structure_preserved.
Print Assumptions C12_group_shapes.
Print Assumptions C12_spill_rule.
Print Assumptions C12_inline_groups_bounded.
Print Assumptions C12_inline_groups_bounded_step.
