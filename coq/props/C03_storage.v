(* C03 (storage half) — uncommitted state never reaches the ledger; commits are durable. *)
From stdpp Require Import gmap sorting.
From Coq Require Import ZArith NArith.
From AtreeModel Require Import Storage StorageSpec.
From AtreeProofs Require Import Storage_proofs Commit_proofs StorageProps_proofs.

Theorem C03_writes_only_in_commit : forall s o, is_commit o = false -> base (fst (step s o)) = base s.
Proof. exact writes_only_in_commit. Qed.

Theorem C03_temp_never_written : forall ops i, is_temp i = true -> base (fst (run st_init ops)) !! i = None.
Proof. exact temp_never_in_ledger. Qed.

(* crash at any point after a commit: the ledger is what that commit left *)
Theorem C03_crash : forall h1 c h2, forallb (fun o => negb (is_commit o)) h2 = true ->
  base (fst (run st_init (h1 ++ [c] ++ h2))) = base (fst (run st_init (h1 ++ [c]))).
Proof. exact crash_keeps_last_commit. Qed.

(* after a successful commit, a brand-new storage over the same registers sees every owned slab *)
Theorem C03_commit_durable_slabs : forall s i, reachable s -> is_temp i = false ->
  view (fst (step (fst (step s (SFastCommit None))) SRecreate)) i = view s i.
Proof. intros s i Hr. exact (commit_then_reopen s i (reachable_coherent s Hr)). Qed.

Print Assumptions C03_writes_only_in_commit.
Print Assumptions C03_temp_never_written.
Print Assumptions C03_crash.
Print Assumptions C03_commit_durable_slabs.
