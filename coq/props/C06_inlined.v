(* C06 (inlined children) — Reported slab sizes equal the bytes actually written: data slabs WITH
   INLINED CHILDREN.  Property theorems only; each is closed by [exact] of a lemma of
   proofs/CodecInl_proofs.v.  Scope: see props/C07_inlined.v.
   [xslab_size] is the reported size as the in-memory bookkeeping computes it: the prefix constant
   of gen/Consts.v for the slab's role plus the sum of the element sizes, where an inlined child
   contributes  c_inlined{Array,Map}DataSlabPrefixSize + (sum of ITS element sizes)  and a
   SomeStorable its prefix + the size of the wrapped storable.  The shared inlined-extra-data
   section is not part of the reported size (like the root's extra data). *)
From Coq Require Import ZArith NArith List Bool.
From AtreeGen Require Import Consts CodecConsts.
From AtreeModel Require Import Codec CodecInl.
From AtreeProofs Require Import Codec_proofs CodecInl_proofs.
Import ListNotations.
Local Open Scope N_scope.

(* written bytes + omitted empty sibling link = reported size + root extra data + shared section *)
Theorem C06_inl_size_is_encoded_length : forall s, xswf true s = true ->
  lenN (encode_xslab s) + xomitted_next s = xslab_size s + lenN (encode_xextra s) + lenN (encode_xsection s).
Proof. exact xsize_is_encoded_length. Qed.

(* a slab decoded from its encoding reports (by the decoders' own size formulas, which re-add the
   sizes of the decoded inlined children) the size of the slab that produced it *)
Theorem C06_inl_decoded_size : forall s, xswf true s = true ->
  option_map snd (decode_xslab_with_size (xsid s) (encode_xslab s)) = Some (xslab_size s).
Proof. exact xdecoded_size_ok. Qed.

(* the per-element figure: ByteSize of a storable (inlined children included, at any depth, under
   [lv] SomeStorable wrappers) is the number of bytes pass 1 writes for it, whatever the state of
   the shared table (the extra-data index has a fixed width) *)
Theorem C06_inl_storable_size : forall s lv, x_wf true lv s = true ->
  forall t, lenN (fst (enc_x lv t s)) = x_size_lv lv s.
Proof. exact x_len. Qed.

(* COMPACT MAPS (the second documented saving).  [xswf false]: well-formed, compact maps allowed
   (and written in compact form whenever eligible, sharing one table entry per type + key set),
   Go's encoder raises no error.  The bytes written in place fall short of the reported size by
   exactly [xslab_saving]: per compact map (at any depth)
       hkeyElementsPrefixSize - (canonical array head of its element count)
       + per entry: digest (8) + element head (1) + the key's size
   (digests and keys are hoisted into the shared section, once per shape; the fixed-width heads
   are dropped). *)
Theorem C06_compact_size : forall s, xswf false s = true ->
  lenN (encode_xslab s) + xomitted_next s + xslab_saving s
  = xslab_size s + lenN (encode_xextra s) + lenN (encode_xsection s).
Proof. exact xsize_compact. Qed.

(* written <= reported *)
Theorem C06_compact_written_le_reported : forall s, xswf false s = true ->
  lenN (encode_xslab s) + xomitted_next s <= xslab_size s + lenN (encode_xextra s) + lenN (encode_xsection s).
Proof. exact xwritten_le_reported. Qed.

(* ---------- examples (vm_compute) ---------- *)

Definition exs_leaf : xslab :=
  XArrayData 3 2 None 0 0
    [XInlArray (TSimple 42) 5 [XUint W8 1; XSome (XInlArray (TSimple 42) 7 [XString [97]])];
     XInlMap (mk_mextra (TSimple 51) 1 99) 8 (XHkeyElems 0 [77] [XESingle (SString [98]) (XSlabID 3 10)])].

Example C06_inl_example : xswf true exs_leaf = true /\ xomitted_next exs_leaf = 16 /\
  lenN (encode_xslab exs_leaf) = 114 /\ xslab_size exs_leaf = 114 /\ lenN (encode_xextra exs_leaf) = 0 /\
  lenN (encode_xsection exs_leaf) = 16 /\
  option_map snd (decode_xslab_with_size (3, 2) (encode_xslab exs_leaf)) = Some 114.
Proof. vm_compute. repeat split. Qed.

(* two composite-typed children of the same shape (keys {a, b} in different order, different
   seeds) share one compact entry; a third of another shape gets its own; one value is itself an
   inlined array *)
Definition exs_compact : xslab :=
  XArrayData 3 2 (Some (TSimple 42)) 0 0
    [XInlMap (mk_mextra (TTagged 201 1) 2 1234) 11
       (XHkeyElems 0 [5; 6] [XESingle (SString [98]) (XUint W8 1); XESingle (SString [97]) (XInlArray (TSimple 40) 13 [XUint W8 9])]);
     XInlMap (mk_mextra (TTagged 201 1) 2 4321) 12
       (XHkeyElems 0 [8; 9] [XESingle (SString [97]) (XUint W8 3); XESingle (SString [98]) (XUint W8 4)]);
     XSome (XInlMap (mk_mextra (TTagged 201 1) 1 7) 14 (XHkeyElems 0 [3] [XESingle (SString [99]) (XString [120; 121])]))].

Example C06_compact_example : xswf false exs_compact = true /\ xswf true exs_compact = false /\
  lenN (xslab_table exs_compact) = 3 /\ xslab_saving exs_compact = 76 /\
  lenN (encode_xslab exs_compact) + xomitted_next exs_compact + 76
  = xslab_size exs_compact + lenN (encode_xextra exs_compact) + lenN (encode_xsection exs_compact).
Proof. vm_compute. repeat split. Qed.

Print Assumptions C06_inl_size_is_encoded_length.
Print Assumptions C06_inl_decoded_size.
Print Assumptions C06_inl_storable_size.
Print Assumptions C06_compact_size.
Print Assumptions C06_compact_written_le_reported.
