(* C08 — The read cache is transparent (storage level). *)
From stdpp Require Import gmap sorting.
From Coq Require Import ZArith NArith.
From AtreeModel Require Import Storage StorageSpec.
From AtreeProofs Require Import Storage_proofs Commit_proofs StorageProps_proofs Cache_proofs.

(* For EVERY client history (stores, removals, reads — what a container does to its storage) and
   EVERY way of inserting {fault-free commit of either kind, drop cache, batch preload,
   cache-bypassing read, is-loaded probe, re-creation of the storage when nothing is pending}
   between its operations, every client-visible answer is the same as without the insertions,
   and both executions end in storages showing the same slab under every identifier. *)
Theorem C08_schedule_transparent : forall s2 ops sops, scheduled s2 ops sops -> forall s1,
  same_view s1 s2 ->
  client_outs ops (snd (run s1 ops)) = client_outs sops (snd (run s2 sops)) /\
  same_view (fst (run s1 ops)) (fst (run s2 sops)).
Proof. exact schedule_transparent. Qed.

(* ... and a final commit then leaves the same owned registers (temporary-address slabs are never
   in the ledger: C03_temp_never_written) *)
Theorem C08_same_registers : forall s1 s2, same_view s1 s2 -> forall i, is_temp i = false ->
  base (fst (step s1 (SFastCommit None))) !! i = base (fst (step s2 (SFastCommit None))) !! i.
Proof. exact schedule_same_registers. Qed.

Theorem C08_schedule_op_keeps_view : forall s o, reachable s -> is_sched s o = true ->
  coherent (fst (step s o)) /\ forall i, view (fst (step s o)) i = view s i.
Proof. intros s o Hr. exact (sched_preserves_view s o (reachable_coherent s Hr)). Qed.

Example C08_example :
  let ops := [SStore (1,1) (mkval 7 3); SStore (1,2) (mkval 8 3); SRetrieve (1,1); SRemove (1,2); SRetrieve (1,2); SRetrieve (1,1)]%N in
  let sops := [SStore (1,1) (mkval 7 3); SFastCommit None; SDropCache; SStore (1,2) (mkval 8 3); SFastCommit None; SRecreate;
               SRetrieve (1,1); SDropCache; SRemove (1,2); SBatchPreload [(1,1); (1,2)]; SRetrieve (1,2); SFastCommit None; SRecreate; SRetrieve (1,1)]%N in
  scheduled st_init ops sops /\ client_outs ops (snd (run st_init ops)) = client_outs sops (snd (run st_init sops)).
Proof.
  cbn zeta. split; [|vm_compute; reflexivity].
  repeat (first [apply sch_nil | apply sch_client; [reflexivity|] | apply sch_sched; [vm_compute; reflexivity|]]).
Qed.

Print Assumptions C08_schedule_transparent.
Print Assumptions C08_same_registers.
Print Assumptions C08_schedule_op_keeps_view.
