(* C13 / C05 (array, sibling links) — the read-only iterator (array_iterator.go
   readOnlyArrayIterator.Next: start at the first data slab, yield its elements, load the slab
   named by its [next] link from storage, stop at SlabIDUndefined) yields exactly the array's
   elements in index order.

   [follow fuel t id] is that walk: slabs are looked up by index in the tree ([node_at], i.e.
   Storage.Retrieve); 0 is SlabIDUndefined; [fuel] bounds the number of slabs visited.  The result
   is independent of the fuel as soon as it covers the number of data slabs, i.e. the walk ends by
   reaching the undefined link. *)
From Coq Require Import NArith ZArith List Bool Permutation.
From AtreeModel Require Import Settings ArrayTree ArrayInv.
From AtreeProofs Require Import ArrayFrame_proofs.
Import ListNotations.
Local Open Scope N_scope.

(* in every reachable array the data slabs are linked left to right, the last link is undefined,
   and the walk along the links from the first data slab yields [to_list] (the in-order
   sequence of elements, which Get / Iterate of the model are defined by) *)
Theorem C13_array_follow_links : forall c rootid ti ops, 0 < rootid ->
  let a := fst (a_run c (fst (arr_init rootid ti)) ops) in
  chain (a_root a) 0 /\
  forall fuel, (length (leaves (a_root a)) <= fuel)%nat ->
    follow fuel (a_root a) (first_leaf_id (a_root a)) = to_list (a_root a).
Proof. exact reach_follow. Qed.

(* the same for any tree with well-shaped index slabs, unique positive indexes and a correct chain *)
Theorem C13_array_follow_links_tree : forall n,
  shape n -> chain n 0 -> NoDup (tree_ids n) -> Forall (fun i => 0 < i) (tree_ids n) ->
  forall fuel, (length (leaves n) <= fuel)%nat -> follow fuel n (first_leaf_id n) = to_list n.
Proof. exact follow_to_list. Qed.

Definition c13_ex_c := set_threshold 256.
Definition c13_ex_appends : list aop :=
  map (fun k => let z := Z.of_nat k in
                if (Nat.eqb k 7 || Nat.eqb k 33)%bool then OAppend (mkelem z 19 1)
                else OAppend (mkelem z (30 + N.of_nat (Nat.modulo k 5) * 17) 0)) (seq 0 60).
Definition c13_ex_a60 := fst (a_run c13_ex_c (fst (arr_init 1 0)) c13_ex_appends).

(* a 17-leaf tree: the walk needs 17 steps (16 are not enough), and yields the 60 elements in order;
   a tree with one wrong link is walked wrongly: the hypothesis on the chain matters *)
Example C13_array_links_example :
  length (leaves (a_root c13_ex_a60)) = 17%nat /\
  map e_id (follow 17 (a_root c13_ex_a60) (first_leaf_id (a_root c13_ex_a60))) = map Z.of_nat (seq 0 60) /\
  length (follow 16 (a_root c13_ex_a60) (first_leaf_id (a_root c13_ex_a60))) = 56%nat /\
  (let l1 := AD (mkhdr 2 0 0) 4 [mkelem 1 1 0] in
   let l2 := AD (mkhdr 3 0 0) 4 [mkelem 2 1 0] in
   let l3 := AD (mkhdr 4 0 0) 0 [mkelem 3 1 0] in
   let t := AM (mkhdr 1 0 0) [hdr_of l1; hdr_of l2; hdr_of l3] [] [l1; l2; l3] in
   map e_id (follow 3 t (first_leaf_id t)) = [1; 3]%Z /\ map e_id (to_list t) = [1; 2; 3]%Z).
Proof. vm_compute. repeat split. Qed.

(* the hypotheses of the tree-level theorem are satisfied by this 17-leaf tree *)
Example C13_array_links_hyps_nonvacuous :
  ids_ok c13_ex_a60 /\ shape (a_root c13_ex_a60) /\ chain (a_root c13_ex_a60) 0.
Proof. exact (proj1 (reach_inv c13_ex_c 1 0 c13_ex_appends eq_refl)). Qed.

Print Assumptions C13_array_follow_links.
Print Assumptions C13_array_follow_links_tree.
