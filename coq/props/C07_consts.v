(* C07 — a generated-constant obligation: the extra-data index of an inlined container is written
   as the fixed two-byte CBOR form 0x18 b, so the largest index the encoder accepts
   (maxInlinedExtraDataIndex, regenerated from /repo on every run) must fit one byte; otherwise the
   index would wrap and an inlined child would reload with another child's type, count and seed. *)
From Coq Require Import NArith Lia.
From AtreeGen Require Import Consts.
Local Open Scope N_scope.

Theorem C07_extra_data_index_fits_one_byte : c_maxInlinedExtraDataIndex <= 255.
Proof. vm_compute. discriminate. Qed.

Print Assumptions C07_extra_data_index_fits_one_byte.
