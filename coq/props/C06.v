(* C06 — Reported slab sizes equal the bytes actually written.
   Property theorems only; each is closed by [exact] of a lemma of proofs/Codec_proofs.v.
   [slab_size] is the reported size (ByteSize / header.size) computed as the in-memory bookkeeping
   does: the prefix constant of gen/Consts.v for the slab's role (root / non-root) plus the sum of
   the element sizes.  Scope: the slab and element kinds of theories/Codec.v (see props/C07.v);
   slabs with inlined children / compact maps (the second documented saving) are the subject of
   props/C06_inlined.v over theories/CodecInl.v. *)
From Coq Require Import ZArith NArith List Bool.
From AtreeGen Require Import Consts CodecConsts.
From AtreeModel Require Import Codec.
From AtreeProofs Require Import Codec_proofs.
Import ListNotations.
Local Open Scope N_scope.

(* written bytes + omitted empty sibling link = reported size + root extra-data section *)
Theorem C06_size_is_encoded_length : forall s, swf s = true ->
  lenN (encode_slab s) + omitted_next s = slab_size s + lenN (encode_extra s).
Proof. exact size_is_encoded_length. Qed.

(* the only deviation: 16 bytes, exactly for a non-root data slab whose sibling link is empty *)
Theorem C06_only_documented_savings : forall s,
  (omitted_next s = 0 \/ omitted_next s = 16) /\
  (omitted_next s = 16 <-> (is_data s = true /\ is_root s = false /\
      match s with SArrayData _ _ _ na ni _ | SMapData _ _ _ na ni _ _ _ => has_next na ni = false | _ => False end)).
Proof. exact omitted_next_cases. Qed.

(* a slab decoded from its encoding reports (by the decoder's own size formulas) the size of the
   slab that produced it *)
Theorem C06_decoded_size : forall s, swf s = true ->
  option_map snd (decode_slab_with_size (sid s) (encode_slab s)) = Some (slab_size s).
Proof. exact decoded_size_ok. Qed.

(* the per-element figures: ByteSize of a storable / Size of a map element is its encoded length *)
Theorem C06_storable_size : forall st, lenN (enc_storable st) = storable_size st.
Proof. exact enc_storable_len. Qed.
Theorem C06_elements_size : forall els, elements_swf els = true -> lenN (enc_elements els) = elements_size els.
Proof. exact enc_elements_len. Qed.

(* ---------- examples (vm_compute) ---------- *)

Definition ex_leaf : slab :=
  SMapData 3 9 None 0 0 true true
    (HkeyElems 1 [7; 8]
       [ESingle (SUint W8 1) (SSome (SSome (SUint W16 300)));
        EGroupS 2 [(SString [97], SUint W32 70000); (SString [98], SSlabID 3 9)]]).

Example C06_example : swf ex_leaf = true /\ omitted_next ex_leaf = 16 /\
  lenN (encode_slab ex_leaf) = 79 /\ slab_size ex_leaf = 95 /\ lenN (encode_extra ex_leaf) = 0 /\
  option_map snd (decode_slab_with_size (3, 9) (encode_slab ex_leaf)) = Some 95.
Proof. vm_compute. repeat split. Qed.

Definition ex_root : slab := SArrayData 3 2 (Some (TSimple 42)) 0 0 [SUint W64 26; SString [104; 105]; SSome (SSlabID 1 2)].
Example C06_example_root : swf ex_root = true /\ omitted_next ex_root = 0 /\
  lenN (encode_slab ex_root) = 36 /\ slab_size ex_root = 33 /\ lenN (encode_extra ex_root) = 3.
Proof. vm_compute. repeat split. Qed.

(* outside swf (the library never links a root to a sibling): a ROOT data slab with a sibling link
   would be written 16 bytes LONGER than reported — the reason swf demands "root => no next" *)
Example C06_root_with_next_outside_swf :
  let s := SArrayData 3 2 (Some (TSimple 42)) 3 4 [] in
  swf s = false /\ lenN (encode_slab s) = slab_size s + lenN (encode_extra s) + 16.
Proof. vm_compute. split; reflexivity. Qed.

Print Assumptions C06_size_is_encoded_length.
Print Assumptions C06_only_documented_savings.
Print Assumptions C06_decoded_size.
Print Assumptions C06_storable_size.
Print Assumptions C06_elements_size.
