(* C03 (nested containers) — "After any successful commit, a brand-new storage instance opened over
   the same ledger registers reconstructs every live container with exactly the content it had at
   commit time, using nothing but those registers" — for FORESTS of nested arrays / maps whose
   children are inlined in, or stored outside, their parent's slab and cross that line while
   parent and child handles are live.

   Model: theories/Nested.v (forest, callbacks, write log [f_log]; C10 / C11) extended by
   theories/NestedDurable.v with the ledger.  One register per STORED container; the register
   stands for the container's whole slab tree, whose own durability is C03_durable (arrays) /
   C03_durable_map (maps).  Vocabulary:
     [flat n f v]      the register of container v: its slots, inlined children embedded
                       recursively ([TI]), stored children as references ([TR]); None if v is inlined
     [flatten n f]     all registers of the forest;   [lookup led v] = the register v of a ledger
     [commit_ledger]   Commit on the write set: newest entry (v,true) -> store the encoding of v's
                       slab object, (v,false) (= storage.Remove on Inline) -> delete register v
     [dreach n g d]    d = (forest, committed ledger) after ANY history of operations on parents,
                       children (through their own handles), detached containers, with commits,
                       each operation satisfying its precondition [op_ok] (C10_reachable's notion)
     [load n R r]      the reader of a fresh storage: register r, following references
     [unfold n f r]    the forest below r as a tree: for every container reachable from r its
                       identifier, wrapper levels, kind, inlined flag, slots
     fuel n            > nesting depth ([fwf] contains [ranked n]). *)
From Coq Require Import ZArith NArith List Bool Lia.
From AtreeModel Require Import Nested NestedDurable.
From AtreeProofs Require Import Nested_proofs NestedDurable_base NestedDurable_proofs NestedDurable_examples.
Import ListNotations.
Local Open Scope N_scope.

(* KEY THEOREM.  In every reachable state:
   - the write set agrees with the inlined flags ((v,true) only for stored containers, (v,false)
     only for inlined ones),
   - the register of every container that is NOT in the write set is already, in the last
     committed ledger, equal to its flattening in the CURRENT forest (whatever happened to its
     inlined descendants through their own handles, to its siblings, ...): "every container whose
     flattened register changed since the last commit is in the write set",
   - committing the write set yields exactly [flatten] of the current forest. *)
Theorem C03_nested_commit_durable : forall n g d,
  (0 < n)%nat -> dreach n g d ->
  log_ok (d_f d) /\
  (forall v, dirty (d_f d) v = None -> lookup (d_led d) v = flat n (d_f d) v) /\
  (forall v, lookup (commit_ledger n (d_f d) (d_led d)) v = lookup (flatten n (d_f d)) v).
Proof. exact C03_nested_commit_durable_l. Qed.

(* ROUND TRIP.  A fresh reader over the registers of a valid forest returns, for every stored
   container r (root, stored child, detached container), exactly the forest below r ... *)
Theorem C03_nested_roundtrip : forall n g f r,
  fwf n g f -> stored f r -> load n (lookup (flatten n f)) r = unfold n f r /\ unfold n f r <> None.
Proof. exact C03_nested_roundtrip_l. Qed.

(* ... and that tree IS the forest restricted to what r reaches: two forests with the same tree
   at r agree on kind, slots and inlined flag of every container reachable from r (what is not in
   the tree: cached sizes — determined by the content, C10 [csize_ok] —, callbacks and index maps,
   which a fresh wrapper does not have) *)
Theorem C03_nested_unfold_faithful : forall n g f f' r,
  fstruct n g f -> fstruct n g f' -> unfold n f r = unfold n f' r -> unfold n f r <> None ->
  forall y, reaches f r y -> content f y = content f' y /\ (y <> r -> view f y = view f' y).
Proof. exact unfold_faithful_views. Qed.

(* LAST COMMIT.  After a commit (d0 -> d1) and ANY further uncommitted operations (d1 ->* d2) the
   ledger is still the flattening of the forest as of the commit, and a fresh reader returns that
   forest; with no further operation (d2 = d1): a fresh load after commit returns the current forest *)
Theorem C03_nested_last_commit : forall n g d0 d1 d2,
  (0 < n)%nat -> dreach n g d0 -> dstep n g d0 OCommit = (d1, true) -> uncommitted n g d1 d2 ->
  (forall v, view (d_f d1) v = view (d_f d0) v) /\
  (forall v, lookup (d_led d2) v = lookup (flatten n (d_f d0)) v) /\
  (forall r, stored (d_f d0) r -> load n (lookup (d_led d2)) r = unfold n (d_f d0) r).
Proof. exact C03_nested_last_commit_l. Qed.

(* non-vacuity: parent 1 = [child 2 (5 scalars), 99] with maxInlineArrayElementSize = 33; a sixth
   element through the child handle uninlines the child, removing it inlines it again
   (proofs/NestedDurable_examples.v) *)
Example C03_nested_inhabited :
  dreach 8 cfgS dS1 /\ dreach 8 cfgS dS3 /\
  stored_ids 8 (d_f dS) = [1] /\
  lookup (d_led dS) 1 = Some (KArr, [(0,0,TI 2 0 KArr five); (0,0,TS 99 3)]) /\ lookup (d_led dS) 2 = None /\
  stored_ids 8 (d_f dS1) = [1; 2] /\ dirty (d_f dS1) 1 = Some true /\ dirty (d_f dS1) 2 = Some true /\
  d_led dS1 = d_led dS /\
  lookup (d_led dS2) 1 = Some (KArr, [(0,0,TR 2 0); (0,0,TS 99 3)]) /\
  lookup (d_led dS2) 2 = Some (KArr, five ++ [(0,0,TS 15 3)]) /\
  load 8 (lookup (d_led dS2)) 1 =
    Some (KArr, [(0,0,NC 2 0 KArr false [(0,0,NS 10 3); (0,0,NS 11 3); (0,0,NS 12 3); (0,0,NS 13 3); (0,0,NS 14 3); (0,0,NS 15 3)]);
                 (0,0,NS 99 3)]) /\
  stored_ids 8 (d_f dS3) = [1] /\ dirty (d_f dS3) 2 = Some false /\ dirty (d_f dS3) 1 = Some true /\
  lookup (d_led dS3) 2 <> None /\
  map fst (d_led dS4) = [1].
Proof. split; [exact dreach_dS1|]. split; [exact dreach_dS3|exact example_registers]. Qed.

Print Assumptions C03_nested_commit_durable.
Print Assumptions C03_nested_roundtrip.
Print Assumptions C03_nested_unfold_faithful.
Print Assumptions C03_nested_last_commit.
