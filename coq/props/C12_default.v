(* C12 — the collision limit a process starts with is the documented 255 (collision limits 0..255): the
   constant is regenerated from /repo on every run (`harness gen` reads the package variable
   maxCollisionLimitPerDigest in a fresh process). *)
From Coq Require Import NArith.
From AtreeGen Require Import Consts.

Theorem C12_default_limit_is_255 : c_initialMaxCollisionLimitPerDigest = 255%N.
Proof. exact eq_refl. Qed.

Print Assumptions C12_default_limit_is_255.
