(* C14 — "... the commit REPORTS AN ERROR ..." and the map half of "retrying converges".

   props/C14.v [C14_failure_reported] gives one direction only (answer = failure -> a failing call
   was logged last).  This file adds the direction the first sentence of the property needs, for
   BOTH commit kinds, and the theorem [C14_map_retry_converges] that C14_durable.v lacked.

   Vocabulary (theories/Storage.v):
     [SFastCommit fail] / [SNondetCommit order fail]   the deterministic / order-relaxed commit;
         [fail = Some k]: the k-th (0-based) ledger call of this commit returns an error
     answer [OCommit ok log]   success flag and the ledger calls issued, in order
         ((true, id) = SetValue of a slab, (false, id) = deletion; the failing call is logged)
     [owned_delta_keys s]      the dirty slabs under a non-temporary address
     [order_ok s order true]   [order] is an order the Go code can take (deletions / stores grouped
         as in storage.go) and is COMPLETE: a permutation of the dirty keys
         ([C14_complete_order_is_permutation]).
   Remark on the model: [nondet_commit] with [fail = Some k] also accepts INCOMPLETE orders (a
   prefix-closed superset of what the Go code does: Go always walks the whole write set unless a
   fault stops it).  For an incomplete order the number of calls is the length of the order, so a
   fault position between that length and n would not fire although the commit did not write
   everything.  The theorems below are therefore stated for complete orders — the only ones a
   fault-free run of the Go code produces — and for the deterministic commit (always complete).
   No reachability / coherence hypothesis is needed: they hold in every state of the model. *)
From stdpp Require Import gmap sorting.
From Coq Require Import ZArith NArith List Bool.
From AtreeModel Require Import Storage StorageSpec Settings MapElems MapTree DurableMap.
From AtreeProofs Require Import Storage_proofs Commit_proofs StorageProps_proofs
  DurableFaults_proofs CommitFaults_proofs.
Local Open Scope N_scope.

(* a complete admissible order of the order-relaxed commit is a duplicate-free permutation of the
   dirty keys *)
Theorem C14_complete_order_is_permutation : forall s order,
  order_ok s order true = true -> base.NoDup order /\ order ≡ₚ owned_delta_keys s.
Proof. exact order_ok_complete_perm. Qed.

(** The fault fires => the commit reports it.  n := number of dirty owned slabs.  The fault-free
    commit issues exactly n ledger calls, one per dirty slab.  If k < n, the commit whose k-th call
    fails ANSWERS FAILURE; it issued exactly k+1 calls — the first k+1 calls of the fault-free
    commit: k successful ones and the failing one; the slabs of the first k calls are written
    through (no longer pending, register = the value that was visible); every other slab is
    untouched (its change is still pending, its register unchanged); all reads are unchanged. *)
Theorem C14_fault_fires_is_reported : forall s (cm : option nat -> sop) (k : nat),
  (cm = SFastCommit \/ exists order, cm = SNondetCommit order /\ order_ok s order true = true) ->
  let n := length (owned_delta_keys s) in
  exists s0 log0,
    step s (cm None) = (s0, OCommit true log0) /\ length log0 = n /\
    map snd log0 ≡ₚ owned_delta_keys s /\
    ((k < n)%nat ->
     exists s', step s (cm (Some k)) = (s', OCommit false (firstn (S k) log0)) /\
       length (firstn (S k) log0) = S k /\
       (forall j, j ∈ map snd (firstn k log0) ->
          deltas s !! j <> None /\ deltas s' !! j = None /\ base s' !! j = view s j) /\
       (forall j, j ∉ map snd (firstn k log0) ->
          deltas s' !! j = deltas s !! j /\ base s' !! j = base s !! j) /\
       (forall j, view s' j = view s j)).
Proof. exact fault_fires_is_reported. Qed.

(** The fault does not fire => nothing is reported.  If k >= n the commit step with [Some k] is
    THE SAME step as the fault-free one: same resulting storage state (ledger, write set, cache),
    same answer — success, with the same n calls. *)
Theorem C14_fault_beyond_calls_is_fault_free : forall s (cm : option nat -> sop) (k : nat),
  (cm = SFastCommit \/ exists order, cm = SNondetCommit order /\ order_ok s order true = true) ->
  (length (owned_delta_keys s) <= k)%nat ->
  step s (cm (Some k)) = step s (cm None) /\
  exists s0 log0, step s (cm None) = (s0, OCommit true log0) /\ length log0 = length (owned_delta_keys s).
Proof. exact fault_beyond_calls_is_fault_free. Qed.

(** Maps: any tail [cs] of commit attempts (either kind, any order the model accepts, any fault
    positions) followed by a fault-free commit of either kind leaves the ledger and the write set
    that ONE fault-free deterministic commit issued in their place would have left; the map value
    is not affected by the attempts (the analogue of C14_durable.C14_array_retry_converges; no
    condition on the operations) *)
Theorem C14_map_retry_converges : forall K T dg levels limit addr rootid,
  addr <> 0 -> 0 < rootid -> forall s0, reachable s0 -> (forall id, view s0 (addr, id) = None) ->
  forall l cs final, mtries_ok l = true -> forallb is_commit cs = true ->
  let c := set_threshold T in
  let t0 := fst (mt_init rootid) in
  let st := mfrun dg levels (cinl_melem c) limit c K addr t0 (fst (run s0 (minit_sops K addr rootid))) l in
  let st' := mfrun dg levels (cinl_melem c) limit c K addr t0 (fst (run s0 (minit_sops K addr rootid)))
                   (l ++ map MFTry cs) in
  final_ok (snd st') final ->
  fst st' = fst st /\ snd st' = fst (run (snd st) cs) /\
  base (fst (step (snd st') final)) = base (fst (step (snd st) (SFastCommit None))) /\
  deltas (fst (step (snd st') final)) = deltas (fst (step (snd st) (SFastCommit None))).
Proof. exact mretry_converges. Qed.

(** Non-vacuity: three slabs committed, then one removed, three stored and one temporary slab
    stored: 4 dirty owned slabs (the temporary one does not count).
    Deterministic commit, 3rd call fails: answer = failure, exactly 3 calls logged, slabs (1,1)
    (1,2) written through, (2,2) (3,1) still pending with their registers untouched.
    Order-relaxed commit (deletion first, then the stores in a non-sorted order), 2nd call fails:
    failure, 2 calls.  Fault position 4 = n: the step is the fault-free step (success, 4 calls). *)
Example C14_reported_example :
  let s := fst (run st_init [SStore (1,1) (mkval 7 3); SStore (1,2) (mkval 8 3); SStore (2,1) (mkval 9 3);
                             SFastCommit None; SRemove (1,1); SStore (1,2) (mkval 11 3);
                             SStore (2,2) (mkval 12 3); SStore (3,1) (mkval 13 3); SStore (0,5) (mkval 14 3)]) in
  let order := [(1,1); (3,1); (1,2); (2,2)] in
  length (owned_delta_keys s) = 4%nat /\ order_ok s order true = true /\
  snd (step s (SFastCommit None)) = OCommit true [(false,(1,1)); (true,(1,2)); (true,(2,2)); (true,(3,1))] /\
  (let s' := fst (step s (SFastCommit (Some 2%nat))) in
   snd (step s (SFastCommit (Some 2%nat))) = OCommit false [(false,(1,1)); (true,(1,2)); (true,(2,2))] /\
   map (fun j => base s' !! j) [(1,1); (1,2); (2,2); (3,1)] = [None; Some (mkval 11 3); None; None] /\
   map (fun j => deltas s' !! j) [(1,1); (1,2); (2,2); (3,1)] =
     [None; None; Some (Some (mkval 12 3)); Some (Some (mkval 13 3))] /\
   map (view s') [(1,1); (1,2); (2,2); (3,1)] = map (view s) [(1,1); (1,2); (2,2); (3,1)]) /\
  snd (step s (SNondetCommit order (Some 1%nat))) = OCommit false [(false,(1,1)); (true,(3,1))] /\
  step s (SFastCommit (Some 4%nat)) = step s (SFastCommit None) /\
  step s (SNondetCommit order (Some 4%nat)) = step s (SNondetCommit order None) /\
  snd (step s (SNondetCommit order None)) = OCommit true [(false,(1,1)); (true,(3,1)); (true,(1,2)); (true,(2,2))].
Proof. cbv zeta. repeat match goal with |- _ /\ _ => split end; vm_compute; reflexivity. Qed.

Print Assumptions C14_complete_order_is_permutation.
Print Assumptions C14_fault_fires_is_reported.
Print Assumptions C14_fault_beyond_calls_is_fault_free.
Print Assumptions C14_map_retry_converges.
