(* C09 (one array's slab tree) — no leaked, dangling or doubly-owned slabs; emptying releases
   every auxiliary slab.

   Scope: the slabs of ONE array with the model's storage log: [slab_ids] = the index/data slabs of
   the tree AND the external value slabs (large values) referenced by its elements.  Slab indexes
   are handed out by the array's allocator [a_alloc]; the log [lg] is the exact sequence of
   storeSlab / Storage.Remove calls of the operation.  The caller's part of the contract ("the
   caller disposes of every value the library hands back") appears as [back_of o out]: the
   external slab of the element returned by Set/Remove, or of all elements handed to the
   PopIterate callback. *)
From Coq Require Import NArith ZArith List Bool Permutation.
From AtreeModel Require Import Settings ArrayTree ArrayInv.
From AtreeProofs Require Import ArrayFrame_proofs.
Import ListNotations.
Local Open Scope N_scope.

(* For every array reachable from an empty one by any history, and any next operation:
   - all slab indexes of the tree (tree slabs and external value slabs) are pairwise distinct,
     positive and at most the allocator ([ids_ok]): every slab has exactly one owner;
   - the root index never changes, the allocator never decreases;
   - ACCOUNTING: new tree ++ slabs released by Storage.Remove ++ slab of the element handed back
     is a permutation of  old tree ++ the freshly allocated indexes, and the left-hand side has no
     duplicates: nothing is leaked (every old or fresh slab is either still referenced, or
     released, or handed to the caller), nothing dangling (no live slab is released), nothing
     owned twice. *)
Theorem C09_array_ids : forall c rootid ti ops o, 0 < rootid ->
  let a := fst (a_run c (fst (arr_init rootid ti)) ops) in
  forall a' out lg, a_step c a o = (a', out, lg) ->
    ids_ok a /\ ids_ok a' /\ a_rootid a = rootid /\ a_rootid a' = rootid /\ a_alloc a <= a_alloc a' /\
    NoDup (slab_ids (a_root a') ++ removed lg ++ back_of o out) /\
    exists k, a_alloc a' = a_alloc a + N.of_nat k /\
              Permutation (slab_ids (a_root a') ++ removed lg ++ back_of o out)
                          (slab_ids (a_root a) ++ nseq (a_alloc a) k).
Proof. exact reach_ids. Qed.

(* PopIterate on any reachable array: afterwards the root data slab is the only slab; the log
   stores the root and removes every other tree slab exactly once (rootid :: removed lg is a
   duplicate-free permutation of the tree's slabs); the external value slabs are exactly those of
   the elements handed to the callback. *)
Theorem C09_array_empty_releases_all : forall c rootid ti ops, 0 < rootid ->
  let a := fst (a_run c (fst (arr_init rootid ti)) ops) in
  forall a' out lg, a_step c a OPop = (a', out, lg) ->
    slab_ids (a_root a') = [rootid] /\
    stored lg = [rootid] /\
    NoDup (rootid :: removed lg) /\
    Permutation (rootid :: removed lg) (tree_ids (a_root a)) /\
    exists l, out = RList l /\
              Permutation (ext_ids l) (ext_ids (to_list (a_root a))) /\
              Permutation (slab_ids (a_root a)) (rootid :: removed lg ++ ext_ids l).
Proof. exact reach_pop. Qed.

(** a concrete history at slab size 256: 60 appends (elements 7 and 33 are large values stored in
    their own slab), 50 removes, PopIterate *)
Definition c09_ex_c := set_threshold 256.
Definition c09_ex_appends : list aop :=
  map (fun k => let z := Z.of_nat k in
                if (Nat.eqb k 7 || Nat.eqb k 33)%bool then OAppend (mkelem z 19 1)
                else OAppend (mkelem z (30 + N.of_nat (Nat.modulo k 5) * 17) 0)) (seq 0 60).
Definition c09_ex_removes : list aop :=
  map (fun k => ORemove (N.of_nat (Nat.modulo (k * 7) (60 - k)))) (seq 0 50).
Definition c09_ex_a60 := fst (a_run c09_ex_c (fst (arr_init 1 0)) c09_ex_appends).
Definition c09_ex_a10 := fst (a_run c09_ex_c c09_ex_a60 c09_ex_removes).
Definition c09_nodupb (l : list N) : bool := Nat.eqb (length (nodup N.eq_dec l)) (length l).

Example C09_array_example :
  (* after the appends: an index slab over 17 data slabs, 2 external value slabs, 20 indexes used *)
  is_data (a_root c09_ex_a60) = false /\
  length (tree_ids (a_root c09_ex_a60)) = 18%nat /\
  ext_ids (to_list (a_root c09_ex_a60)) = [4; 12] /\
  a_alloc c09_ex_a60 = 20 /\
  c09_nodupb (slab_ids (a_root c09_ex_a60)) = true /\
  (* after the removes (which returned the two large values, with their slab indexes 12 and 4) *)
  slab_ids (a_root c09_ex_a10) = [1; 2; 16; 17; 20] /\
  (* PopIterate *)
  (let '(a', _, lg) := a_step c09_ex_c c09_ex_a10 OPop in
   slab_ids (a_root a') = [1] /\ lg = [WRemove 20; WRemove 17; WRemove 16; WRemove 2; WStore 1]) /\
  (* PopIterate directly after the appends: 17 removes, none of them for 4 or 12 *)
  (let '(a', out, lg) := a_step c09_ex_c c09_ex_a60 OPop in
   slab_ids (a_root a') = [1] /\ length (removed lg) = 17%nat /\
   existsb (fun i => (i =? 4) || (i =? 12)) (removed lg) = false /\
   back_of OPop out = [12; 4]).
Proof. vm_compute. repeat split. Qed.

Print Assumptions C09_array_ids.
Print Assumptions C09_array_empty_releases_all.
