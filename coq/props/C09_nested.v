(* C09 (nested containers) — "no slab leaks, dangles or is owned twice" when children cross the
   inline limit or are detached / overwritten / removed.

   Model: theories/Nested.v + theories/NestedDurable.v (one register per stored container, see
   props/C03_nested.v; the slabs INSIDE one container's tree are accounted for by C09_array / C09_map).
   Nested.v already records the storage events on container roots in its write log:
   (v,true) = storeSlab, (v,false) = storage.Remove (array.go / map.go Inline).
     [stored_ids n f]   identifiers of the registers of [flatten n f]
     [reg_refs r]       identifiers referenced from register r ([TR], at any embedding depth)
     [reg_inls r]       identifiers of the containers embedded in register r ([TI])
     [popped f v]       v is inlined and in no slot: its parent was emptied by PopIterate while v
                        was inlined, the PopIterate callback received v's slab (no register exists) *)
From Coq Require Import ZArith NArith List Bool Lia.
From AtreeModel Require Import Nested NestedDurable.
From AtreeProofs Require Import Nested_proofs NestedDurable_base NestedDurable_proofs NestedDurable_examples.
Import ListNotations.
Local Open Scope N_scope.

(* In every valid (in particular: every reachable, C10_reachable) forest:
   1. the registers are exactly the containers that are not inlined: roots, attached children that
      are not inlined, detached containers ([stored f v]: exists and c_inl = false);
   2. no reference dangles: every referenced identifier is a register;
   3. no identifier is both embedded (inlined) and a register;
   4. one owner: an identifier occurs (referenced or embedded) in at most one register;
   5. no leak: a stored container is in no slot (a root, or a detached container handed to the
      caller: C11_detach), or is referenced by the register that embeds its parent, or its parent
      lies inside a container that PopIterate handed to its callback while inlined. *)
Theorem C09_nested_accounting : forall n g f,
  fwf n g f ->
  (forall v, In v (stored_ids n f) <-> stored f v) /\
  (forall x r v, lookup (flatten n f) x = Some r -> In v (reg_refs r) -> In v (stored_ids n f)) /\
  (forall x r v, lookup (flatten n f) x = Some r -> In v (reg_inls r) -> inlined f v /\ ~ In v (stored_ids n f)) /\
  (forall x x' r r' v, lookup (flatten n f) x = Some r -> lookup (flatten n f) x' = Some r' ->
     In v (reg_refs r ++ reg_inls r) -> In v (reg_refs r' ++ reg_inls r') -> x = x') /\
  (forall v, stored f v ->
     ~ attached f v \/
     (exists x r, lookup (flatten n f) x = Some r /\ In v (reg_refs r)) \/
     (exists p i s w q, edge f p i s v w /\ ianc f q p /\ popped f q)).
Proof. exact C09_nested_static_l. Qed.

(* What ONE operation of a history does to the set of registers (f -> f'):
   - no container is deleted; a container is created only by NewArray / NewMap (stored, in the write set);
   - a register disappears only because its container was inlined, and then storage.Remove is in
     the write set; a register appears only because its container was uninlined (or created), and
     then the store is in the write set — so the next commit makes the ledger agree (last clause);
   - a container loses both its register and its slot only by PopIterate of its parent while it
     is inlined (Remove / Set hand the element back uninlined and stored: C11_detach);
   - after a commit the identifiers in the ledger are exactly the stored containers. *)
Theorem C09_nested_step : forall n g d o d',
  (0 < n)%nat -> dreach n g d -> op_ok n (d_f d) o -> dstep n g d o = (d', true) ->
  let f := d_f d in let f' := d_f d' in
  (forall v, fget f v <> None -> fget f' v <> None) /\
  (forall v, fget f v = None -> fget f' v <> None ->
     (exists k, o = ONew v k) /\ stored f' v /\ dirty f' v = Some true) /\
  (forall v, stored f v -> ~ stored f' v -> inlined f' v /\ dirty f' v = Some false) /\
  (forall v, inlined f v -> stored f' v -> dirty f' v = Some true) /\
  (forall v, popped f' v -> popped f v \/ exists p i s w, o = OPop p /\ inlined f v /\ edge f p i s v w) /\
  (is_commit o = true -> forall v, In v (map fst (d_led d')) <-> stored f' v).
Proof. exact C09_nested_step_l. Qed.

(* a removed / overwritten child is handed to the caller as a stored standalone container, not deleted *)
Theorem C09_nested_displaced_is_detached : forall n g f p o f' ok i s h w,
  fwf n g f -> edge f p i s h w -> op_ok n f (cop_nop p o) -> child_step n g f p o = (f', ok) ->
  (o = CRemove i \/ (exists e, o = CSet i e) \/ o = CMRemove (s_kid s) \/ (exists ksz e, o = CMSet (s_kid s) ksz e)) ->
  stored f' h /\ ~ attached f' h.
Proof. exact C11_detach_l. Qed.

(* non-vacuity: the history of C03_nested_inhabited (registers {1} -> {1,2} -> {1}) *)
Example C09_nested_inhabited :
  dreach 8 cfgS dS /\ op_ok 8 (d_f dS) oGrow /\ dstep 8 cfgS dS oGrow = (dS1, true) /\
  stored_ids 8 (d_f dS) = [1] /\ stored_ids 8 (d_f dS1) = [1; 2] /\ stored_ids 8 (d_f dS3) = [1] /\
  dirty (d_f dS3) 2 = Some false /\ map fst (d_led dS4) = [1].
Proof.
  split; [exact dreach_dS|]. split; [exact ok_grow|]. split; [exact step_grow|].
  destruct example_registers as (A & _ & _ & B & _ & _ & _ & _ & _ & _ & C & D & _ & _ & E). auto.
Qed.

Print Assumptions C09_nested_accounting.
Print Assumptions C09_nested_step.
Print Assumptions C09_nested_displaced_is_detached.
