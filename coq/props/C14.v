(* C14 — A failed commit loses nothing and a retry converges to the fault-free result. *)
From stdpp Require Import gmap sorting.
From Coq Require Import ZArith NArith.
From AtreeModel Require Import Storage StorageSpec.
From AtreeProofs Require Import Storage_proofs Commit_proofs StorageProps_proofs.

(* For any commit (deterministic or order-relaxed, any processing order the Go code can take, a
   failing ledger call at any position or none): reads keep returning the latest values, and every
   pending change is either still pending, unchanged, with its register untouched, or it is
   durably written (register = the value that was visible) and no longer pending. *)
Theorem C14_failed_commit_keeps_everything : forall s o j, reachable s -> is_commit o = true ->
  let s' := fst (step s o) in
  coherent s' /\
  (forall i, view s' i = view s i) /\
  ((deltas s' !! j = deltas s !! j /\ base s' !! j = base s !! j) \/
   (deltas s !! j <> None /\ deltas s' !! j = None /\ base s' !! j = view s j)).
Proof. intros s o j Hr. exact (commit_step_effect s o j (reachable_coherent s Hr)). Qed.

(* a commit whose ledger call failed reports failure, and the failing call is the last one issued *)
Theorem C14_failure_reported : forall s o, is_commit o = true ->
  match snd (step s o) with
  | OCommit ok log => ok = false -> exists c, last log = Some c
  | OBadOrder => True
  | _ => False
  end.
Proof. exact failed_commit_reports. Qed.

(* any number of commits of either kind, each failing anywhere (or not), followed by one commit
   that meets no fault: ledger and write set are exactly those of one fault-free deterministic
   commit of the original state, and nothing owned stays pending *)
Theorem C14_retry_converges : forall s cs final, reachable s -> forallb is_commit cs = true ->
  (final = SFastCommit None \/
   exists order, final = SNondetCommit order None /\ order_ok (fst (run s cs)) order true = true) ->
  let s1 := fst (step (fst (run s cs)) final) in
  let s0 := fst (step s (SFastCommit None)) in
  base s1 = base s0 /\ deltas s1 = deltas s0 /\ owned_delta_keys s1 = [].
Proof. intros s cs final Hr. exact (retry_converges_model s cs final (reachable_coherent s Hr)). Qed.

Example C14_example :
  let s := fst (run st_init [SStore (1,1) (mkval 7 3); SStore (1,2) (mkval 8 3); SStore (2,1) (mkval 9 3);
                             SFastCommit None; SRemove (1,1); SStore (1,2) (mkval 11 3); SStore (2,2) (mkval 12 3)]%N) in
  let s1 := fst (step s (SFastCommit (Some 1%nat))) in      (* second ledger call fails *)
  reachable s /\ snd (step s (SFastCommit (Some 1%nat))) = OCommit false [(false,(1,1)); (true,(1,2))]%N /\
  base s1 !! (1,1)%N = None /\ base s1 !! (1,2)%N = Some (mkval 8 3) /\ view s1 (1,2)%N = Some (mkval 11 3) /\
  base (fst (step s1 (SFastCommit None))) = base (fst (step s (SFastCommit None))).
Proof. cbn zeta. split; [eexists; reflexivity|]. vm_compute. repeat split. Qed.

Print Assumptions C14_failed_commit_keeps_everything.
Print Assumptions C14_failure_reported.
Print Assumptions C14_retry_converges.
