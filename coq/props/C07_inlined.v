(* C07 (inlined children) — Slab encoding is canonical, self-describing and round-trips exactly:
   data slabs WITH INLINED CHILDREN.
   Property theorems only; each is closed by [exact] of a lemma of proofs/CodecInl_proofs.v.
   Scope (theories/CodecInl.v): version-1 array data slabs and map data slabs (root / non-root, with /
   without sibling link, hkey elements, single elements, inline collision groups nested to any
   depth, external collision groups, list mode) whose element values are drawn from
   {Uint8/16/32/64Value, StringValue, SlabIDStorable, SomeStorable (both encodings),
    INLINED ARRAY, INLINED MAP} — inlined children at ANY nesting depth, under any number of
   SomeStorable wrappers, inside collision groups; map keys from the universe of Codec.v.
   The encoder is the two-pass one: pass 1 assigns every inlined child its index into the shared
   inlined-extra-data table in first-use order (arrays de-duplicated by encoded type info, maps
   never), pass 2 writes the section (type infos occurring twice hoisted, in byte-string order,
   and referenced by d8 f6 i).  The decoder parses the section into a table and resolves every
   index (rejecting an index out of range or of the wrong kind).
   [xswf true] = well-formed and NO inlined map eligible for the compact form (composite type, no
   collision groups, StringValue keys); compact maps: props/C07_compact.v, props/C06_inlined.v
   (C06_compact_size) and the lock-step engine `codecinl`, which covers them. *)
From Coq Require Import ZArith NArith List Bool.
From AtreeGen Require Import Consts CodecConsts.
From AtreeModel Require Import Codec CodecInl.
From AtreeProofs Require Import Codec_proofs CodecInl_proofs.
Import ListNotations.
Local Open Scope N_scope.

(* decoding what the two-pass encoder wrote gives back the slab: same elements in order, every
   inlined child with its type info / count / seed (looked up through the written index), its value
   id, its elements *)
Theorem C07_inl_decode_encode : forall s, xswf true s = true -> decode_xslab (xsid s) (encode_xslab s) = Some s.
Proof. exact xdecode_encode. Qed.

(* decode then re-encode gives identical bytes (in particular the same index assignment, the same
   de-duplication and the same hoisted type infos) *)
Theorem C07_inl_reencode : forall s, xswf true s = true ->
  option_map encode_xslab (decode_xslab (xsid s) (encode_xslab s)) = Some (encode_xslab s).
Proof. exact xreencode. Qed.

(* the flags readable from the raw bytes describe the content; [xholds_slab_refs] is defined on
   content THROUGH inlined children: some value, at any wrapping / inlining depth, is a slab
   reference or sits behind an external collision group.  No hypothesis: holds for compact maps too. *)
Theorem C07_inl_flags : forall s,
  raw_is_root (encode_xslab s) = Some (xis_root s) /\
  raw_has_pointers (encode_xslab s) = Some (xholds_slab_refs s) /\
  raw_has_size_limit (encode_xslab s) = Some (negb (xany_size s)) /\
  raw_has_inlined (encode_xslab s) = Some (xslab_inlined s).
Proof. exact xflags_describe_content. Qed.

(* the section alone: what InlinedExtraData.Encode writes, newInlinedExtraDataFromData reads back
   (array, map AND compact-map entries, with type-info references) *)
Theorem C07_inl_section : forall t r, tbl_ok t -> t <> [] -> lenN t < two64 ->
  dec_section (enc_section t ++ r) = Some (t, r).
Proof. exact dec_section_enc. Qed.

(* ---------- examples (vm_compute) ---------- *)

(* root array: a scalar; an inlined array holding an (empty) inlined array of another type and a
   wrapped inlined array of its own type (shares entry 0); a doubly wrapped inlined map whose
   value is an inlined array holding a reference; a simple-typed inlined map of the first map's type *)
Definition exi_array : xslab :=
  XArrayData 3 2 (Some (TSimple 42)) 0 0
    [XUint W8 7;
     XInlArray (TSimple 42) 5 [XUint W8 1; XInlArray (TSimple 43) 6 []; XSome (XInlArray (TSimple 42) 7 [XString [97]])];
     XSome (XSome (XInlMap (mk_mextra (TSimple 51) 1 99) 8
                           (XHkeyElems 0 [77] [XESingle (SString [98]) (XInlArray (TSimple 43) 9 [XSlabID 3 10])])));
     XInlMap (mk_mextra (TSimple 51) 0 1234) 11 (XHkeyElems 0 [] [])].

(* non-root map data slab: inlined children inside a collision group and in list mode *)
Definition exi_map : xslab :=
  XMapData 1 4 None 1 5 false false
    (XHkeyElems 0 [5; 6]
       [XESingle (SUint W64 1) (XInlArray (TTagged 201 7) 20 [XUint W16 300]);
        XEGroupH 1 [7; 8]
          [XESingle (SUint W8 1) (XSome (XInlMap (mk_mextra (TTagged 201 7) 1 5) 21 (XSingleElems 4 [(SString [97], XUint W8 2)])));
           XEGroupS 2 [(SString [97], XInlArray (TTagged 201 7) 22 []); (SString [98], XSlabID 1 9)]]]).

Example C07_inl_example_wf : xswf true exi_array = true /\ xswf true exi_map = true.
Proof. vm_compute. split; reflexivity. Qed.

Example C07_inl_example_tables :
  xslab_table exi_array =
    [XDArray (TSimple 42); XDArray (TSimple 43); XDMap (mk_mextra (TSimple 51) 1 99); XDMap (mk_mextra (TSimple 51) 0 1234)] /\
  hoisted (xslab_table exi_array) = [[24; 51]] /\
  xslab_table exi_map = [XDArray (TTagged 201 7); XDMap (mk_mextra (TTagged 201 7) 1 5)] /\
  hoisted (xslab_table exi_map) = [[216; 201; 7]].
Proof. vm_compute. repeat split. Qed.

Example C07_inl_example_roundtrip :
  decode_xslab (3, 2) (encode_xslab exi_array) = Some exi_array /\
  decode_xslab (1, 4) (encode_xslab exi_map) = Some exi_map.
Proof. vm_compute. split; reflexivity. Qed.

Example C07_inl_example_section_bytes :
  encode_xsection exi_array =
  [130; 129; 24; 51; 132; 216; 247; 129; 24; 42; 216; 247; 129; 24; 43;
   216; 248; 131; 216; 246; 0; 1; 24; 99; 216; 248; 131; 216; 246; 0; 0; 25; 4; 210].
Proof. vm_compute. reflexivity. Qed.

Example C07_inl_example_flags :
  raw_has_pointers (encode_xslab exi_array) = Some true /\ raw_has_inlined (encode_xslab exi_array) = Some true /\
  raw_has_pointers (encode_xslab exi_map) = Some true /\ raw_is_root (encode_xslab exi_map) = Some false.
Proof. vm_compute. repeat split. Qed.

(* the decoder rejects an index out of range and an index of the wrong kind (byte 20 of the
   element part is the index of the first inlined array) *)
Definition patch (n : nat) (v : N) (b : bytes) : bytes := firstn n b ++ v :: skipn (S n) b.
Example C07_inl_example_bad_index :
  let b := encode_xslab exi_array in
  nth 49 b 999 = 0 /\ decode_xslab (3, 2) (patch 49 4 b) = None /\ decode_xslab (3, 2) (patch 49 2 b) = None /\
  (exists s', decode_xslab (3, 2) (patch 49 1 b) = Some s' /\ s' <> exi_array).
Proof. vm_compute. repeat split. eexists. split; [reflexivity|discriminate]. Qed.

(* outside xswf: a type info whose encoding starts with atree's own reference tag (d8 f6) is read
   back as a reference as soon as the section hoists any type info (tag numbers 240..255 are
   reserved by atree; testutils.CompositeTypeInfo uses 246) *)
Example C07_inl_reserved_tag_not_roundtrip :
  let s := XArrayData 3 2 None 0 0 [XInlArray (TTagged 246 0) 5 []; XInlMap (mk_mextra (TSimple 1) 0 0) 6 (XHkeyElems 0 [] []);
                                     XInlMap (mk_mextra (TSimple 1) 0 0) 7 (XHkeyElems 0 [] [])] in
  xswf true s = false /\ decode_xslab (3, 2) (encode_xslab s) <> Some s.
Proof. vm_compute. split; [reflexivity|discriminate]. Qed.

(* the model extends Codec.v: on slabs without inlined children it writes the same bytes *)
Example C07_inl_conservative :
  let s1 := SArrayData 3 2 None 3 4 [SUint W64 26; SString [104; 105]; SSome (SSlabID 1 2); SUint W8 255] in
  let s2 := SMapData 3 1 (Some (mk_mextra (TSimple 50) 7 9765714751975633507)) 0 0 false false
              (HkeyElems 0 [4728050203890185285; 5; 6]
                 [ESingle (SUint W64 151593) (SSome (SString [122; 111]));
                  EGroupH 1 [7; 8]
                    [ESingle (SUint W8 1) (SSome (SSome (SSome (SUint W16 300))));
                     EGroupS 2 [(SString [97], SUint W32 70000); (SString [98], SSlabID 3 9)]];
                  EExt 3 17]) in
  option_map encode_xslab (xslab_of_slab s1) = Some (encode_slab s1) /\
  option_map encode_xslab (xslab_of_slab s2) = Some (encode_slab s2).
Proof. vm_compute. split; reflexivity. Qed.

Print Assumptions C07_inl_decode_encode.
Print Assumptions C07_inl_reencode.
Print Assumptions C07_inl_flags.
Print Assumptions C07_inl_section.
