(* C13 / C05 (map, sibling links) — the sequential walk over the data slabs of an OrderedMap
   (start at the first data slab, yield its entries, load the slab named by its [next] link from
   storage, stop at SlabIDUndefined) yields exactly the map's entries in iteration order.

   [mfollow fuel t id] is that walk: data slabs are looked up by index in the tree ([leaf_at], i.e.
   Storage.Retrieve + the MapDataSlab type assertion; the entries of a slab are those of its
   elements, external collision groups included); 0 is SlabIDUndefined; [fuel] bounds the number of
   slabs visited.  The result is independent of the fuel as soon as it covers the number of data
   slabs, i.e. the walk ends by reaching the undefined link.  No byte size, digest or threshold
   enters the first three theorems. *)
From Coq Require Import NArith ZArith List Bool Permutation.
From AtreeModel Require Import Settings MapElems MapElemsInv MapTree MapTreeInv.
From AtreeProofs Require Import MapFrame_proofs.
From AtreeProofs Require Map_proofs.
Import ListNotations.
Local Open Scope N_scope.

(* in every reachable map the data slabs are linked left to right, the last link is undefined, and
   the walk along the links from the first data slab yields [to_list_tree] (the leaves' entries left
   to right, which Iterate of the model is defined by) *)
Theorem C13_map_follow_links : forall dg levels max_inline_elem limit c rootid ops, 0 < rootid ->
  let t := fst (mt_run dg levels max_inline_elem limit c (fst (mt_init rootid)) ops) in
  chain (t_root t) 0 /\
  forall fuel, (length (mleaves (t_root t)) <= fuel)%nat ->
    mfollow fuel (t_root t) (first_leaf_id (t_root t)) = to_list_tree (t_root t).
Proof. exact mreach_follow. Qed.

(* every operation preserves the chain of data slabs (together with the shape it relies on) *)
Theorem C13_map_chain_step : forall dg levels max_inline_elem limit c t o t' out lg,
  shape (t_root t) -> chain (t_root t) 0 ->
  mt_step dg levels max_inline_elem limit c t o = (t', out, lg) ->
  shape (t_root t') /\ chain (t_root t') 0.
Proof. exact mchain_step. Qed.

(* the same for any tree with well-shaped slabs, unique positive tree-slab indexes and a correct chain *)
Theorem C13_map_follow_links_tree : forall n,
  shape n -> chain n 0 -> NoDup (tree_ids n) -> Forall (fun i => 0 < i) (tree_ids n) ->
  forall fuel, (length (mleaves n) <= fuel)%nat -> mfollow fuel n (first_leaf_id n) = to_list_tree n.
Proof. exact mfollow_to_list. Qed.

(* the data slab the walk loads is the slab whose own content the frame theorem (C03_map) speaks about *)
Theorem C13_map_leaf_lookup_is_own_content : forall n, NoDup (mslab_ids n) ->
  forall id h nx es, leaf_at n id = Some (h, nx, es) -> mnode_at n id = Some (SD h nx (strip_g es)).
Proof. exact leaf_at_mnode_at. Qed.

(* with the refinement theorem of C02 (legal slab size, admissible arguments): the walk yields the
   dictionary of the specification, i.e. every entry exactly once in canonical order *)
Theorem C13_map_follow_is_dictionary : forall dg levels T limit ks rootid ops,
  valid_T T -> (0 < levels)%nat -> 0 < rootid -> Forall (Map_proofs.mop_ok T ks) ops ->
  let c := set_threshold T in
  let t := fst (mt_run dg levels (cinl_melem c) limit c (fst (mt_init rootid)) ops) in
  forall fuel, (length (mleaves (t_root t)) <= fuel)%nat ->
    mfollow fuel (t_root t) (first_leaf_id (t_root t)) = fst (d_run dg levels limit [] ops).
Proof. exact mfollow_is_dictionary. Qed.

Definition c13m_c := set_threshold 256.
Definition c13m_dg (k : N) (l : nat) : N := match l with O => k / 10 | 1%nat => k mod 10 | _ => k end.
Definition c13m_set (k : N) : mop := OSet (mkkv k 9) (mkkv (k + 1000) 40).
Definition c13m_ops : list mop := map c13m_set [10; 11; 12; 20; 30; 40; 50; 60; 70; 80; 90; 100; 110].
Definition c13m_t : mtree := fst (mt_run c13m_dg 4 (cinl_melem c13m_c) 8 c13m_c (fst (mt_init 1)) c13m_ops).

(* a 3-leaf tree whose first leaf holds an external collision group (keys 10 11 12): the walk needs
   3 steps (2 are not enough) and yields the 13 entries in order; a tree with one wrong link is
   walked wrongly: the hypothesis on the chain matters *)
Example C13_map_links_example :
  length (mleaves (t_root c13m_t)) = 3%nat /\ mslab_ids (t_root c13m_t) = [1; 3; 2; 4; 5] /\
  map (fun p => kid (fst p)) (mfollow 3 (t_root c13m_t) (first_leaf_id (t_root c13m_t)))
    = [10; 11; 12; 20; 30; 40; 50; 60; 70; 80; 90; 100; 110] /\
  length (mfollow 2 (t_root c13m_t) (first_leaf_id (t_root c13m_t))) = 10%nat /\
  (let lf id nx k := MD (mkmhdr id 0 0) nx (HKey 0 [k] [ESingle (mkkv k 1) (mkkv k 1)] 0) in
   let l1 := lf 2 4 1 in let l2 := lf 3 4 2 in let l3 := lf 4 0 3 in
   let t := MM (mkmhdr 1 0 0) [hdr_of l1; hdr_of l2; hdr_of l3] [l1; l2; l3] in
   map (fun p => kid (fst p)) (mfollow 3 t (first_leaf_id t)) = [1; 3] /\
   map (fun p => kid (fst p)) (to_list_tree t) = [1; 2; 3]).
Proof. vm_compute. repeat split. Qed.

(* the hypotheses of the tree-level theorems are satisfied by this 3-leaf tree *)
Example C13_map_links_hyps_nonvacuous :
  mids_ok c13m_t /\ shape (t_root c13m_t) /\ chain (t_root c13m_t) 0.
Proof. exact (proj1 (mreach_inv c13m_dg 4 (cinl_melem c13m_c) 8 c13m_c 1 c13m_ops eq_refl)). Qed.

Print Assumptions C13_map_follow_links.
Print Assumptions C13_map_chain_step.
Print Assumptions C13_map_follow_links_tree.
Print Assumptions C13_map_leaf_lookup_is_own_content.
Print Assumptions C13_map_follow_is_dictionary.
