(* C18 (nested containers) — a request rejected with an error through a CHILD handle leaves the
   whole forest unchanged.
   Model: theories/Nested.v (forest of containers with the parent-notification machinery),
   vocabulary: theories/NestedErr.v; proofs: proofs/NestedErr_proofs.v.

   [step n g f o = (f', false)] is "the operation answered with an error".  [f' = f] is equality of
   the WHOLE forest record: for every container (the child, every ancestor, everything else) the
   element list, the inline flag, the cached size, the parent callback, the index map
   (mutableElementIndex), AND the write log [f_log] (no storeSlab / Storage.Remove was issued, so
   the next commit persists exactly what it would have persisted without the request).
   [fwf]: the forest invariant of C10 (holds in every reachable state, C10_reachable).
   [req_pre]: the caller's discipline (a container given as a new value exists, is attached nowhere,
   keeps the nesting acyclic); it does not restrict index / key / kind.
   [req_valid]: the argument test (container exists, right kind, index in range, key present).

   Not modelled in Nested.v: the collision-limit refusal of OrderedMap.Set (element level:
   C18_map_no_trace) and errors of caller-supplied components. *)
From Coq Require Import ZArith NArith List Bool.
From AtreeModel Require Import Nested NestedErr.
From AtreeProofs Require Import NestedErr_proofs Nested_examples.
Import ListNotations.
Local Open Scope N_scope.

(* through the handle h of a container attached in slot i of p: an error leaves the forest as it
   was — in particular every ancestor's content, cached size, dirty state and index map *)
Theorem C18_nested_no_trace : forall n g f h o f' p i s w,
  fwf n g f -> edge f p i s h w -> req_pre n f (cop_nop h o) ->
  child_step n g f h o = (f', false) ->
  f' = f /\
  (forall x, fget f' x = fget f x /\ dirty f' x = dirty f x) /\
  f_log f' = f_log f /\
  req_valid f (cop_nop h o) = false.
Proof.
  intros n g f h o f' p i s w Hwf _ Hpre Hstep.
  destruct (nested_no_trace n g f (cop_nop h o) f' Hwf Hpre Hstep) as [-> Hv]. auto.
Qed.

(* the same for any handle (root, child, detached container) and any operation of the model *)
Theorem C18_nested_no_trace_any : forall n g f o f',
  fwf n g f -> req_pre n f o -> step n g f o = (f', false) -> f' = f /\ req_valid f o = false.
Proof. exact nested_no_trace. Qed.

(* which requests are rejected: exactly those failing the argument test; and a request failing the
   argument test is answered by an error with the forest untouched in EVERY state (no invariant,
   no discipline needed: the test comes first) *)
Theorem C18_nested_rejects_exactly : forall n g f o,
  fwf n g f -> req_pre n f o -> (snd (step n g f o) = true <-> req_valid f o = true).
Proof. exact nested_accept_iff. Qed.

Theorem C18_nested_refusal_first : forall n g f o, req_valid f o = false -> step n g f o = (f, false).
Proof. exact reject_id. Qed.

(* history version: a history that goes on after errors and the same history without its rejected
   requests end in the same forest, with the same answers to the accepted requests; the invariant
   holds at the end (hence after every prefix) *)
Theorem C18_nested_history : forall n g os f, fwf n g f -> hist_pre n g f os ->
  fst (run_all n g f (keep_accepted n g f os)) = fst (run_all n g f os) /\
  snd (run_all n g f (keep_accepted n g f os)) = filter (fun b => b) (snd (run_all n g f os)) /\
  Forall (fun b => b = true) (snd (run_all n g f (keep_accepted n g f os))) /\
  fwf n g (fst (run_all n g f os)).
Proof. exact nested_history. Qed.

(* non-vacuity: in the reachable forest f0 (array 1 = [array 2 (5 scalars, inlined), 99]) requests
   through the child handle 2 with an out-of-range index, or of the wrong kind, are rejected; a
   history with four rejected requests among six *)
Example C18_nested_example :
  fwf 8 cfg1024 f0 /\ edge f0 1 0 (mkSlot 0 0 (NChild 2 0)) 2 0 /\
  child_step 8 cfg1024 f0 2 (CSet 7 (sc 50)) = (f0, false) /\
  child_step 8 cfg1024 f0 2 (CRemove 5) = (f0, false) /\
  child_step 8 cfg1024 f0 2 (CInsert 6 (sc 50)) = (f0, false) /\
  child_step 8 cfg1024 f0 2 (CMRemove 3) = (f0, false) /\
  req_pre 8 f0 (cop_nop 2 (CSet 7 (sc 50))) /\
  hist_pre 8 cfg1024 f0 rej_ops /\
  snd (run_all 8 cfg1024 f0 rej_ops) = [false; true; false; false; false; true] /\
  keep_accepted 8 cfg1024 f0 rej_ops = [OArrInsert 2 5 (sc 15); OArrRemove 2 0].
Proof.
  split; [exact fwf_f0|]. split; [exact edge_f0|].
  destruct rej_examples as (A & B & C & D & E). destruct rej_history as (F & G & H & _).
  repeat (split; [assumption|]). assumption.
Qed.

Print Assumptions C18_nested_no_trace.
Print Assumptions C18_nested_no_trace_any.
Print Assumptions C18_nested_rejects_exactly.
Print Assumptions C18_nested_refusal_first.
Print Assumptions C18_nested_history.
Print Assumptions C18_nested_example.
