(* C16 (pool part) — goroutines on their own storages get the results they would get alone,
   despite the process-wide sync.Pools (basicDigesterPool, bufferPool, typeIDBufferPool) and the
   global thresholds.  Model: theories/Pool.v.  The hypotheses are properties of the CALLERS'
   code: [well_bracketed] (checked syntactically on /repo by `harness poolcheck`, and dynamically
   by the -race schedule harness) and [no_set_threshold] (SetThreshold is not called during the
   concurrent phase — an assumption on the users of the library, not provable from it). *)
From Coq Require Import List Arith Bool NArith.
From AtreeModel Require Import Pool.
From AtreeProofs Require Import Pool_proofs.
Import ListNotations.

Theorem C16_pool_isolation :
  forall (ostate input uop result G : Type) (fresh : ostate) (reset : ostate -> ostate)
         (init : input -> ostate -> ostate) (use : G -> uop -> ostate -> ostate * result)
         (clean : ostate -> Prop) (sim : ostate -> ostate -> Prop),
  pool_laws fresh reset init use clean sim ->
  forall (s : sched) (progs : list (list (action input uop G))) (pool0 : list ostate) (g0 : G),
  Forall clean pool0 ->                                        (* pooled objects: dirty except where Init relies on the put function *)
  Forall (fun p => well_bracketed p = true) progs ->
  Forall (fun p => no_set_threshold p = true) progs ->
  all_done fresh reset init use s progs pool0 g0 = true ->     (* any schedule, fair or not, that finishes all threads *)
  forall t, t < length progs ->
    nth t (run_interleaved fresh reset init use s progs pool0 g0) [] = run_alone fresh reset init use g0 (nth t progs []).
Proof. exact pool_isolation. Qed.

(* instantiated for the real object types, for arbitrary hash functions *)
Theorem C16_pool_isolation_digester : forall circle blake s progs pool0 g0,
  Forall dig_clean pool0 -> Forall (fun p => well_bracketed p = true) progs ->
  Forall (fun p => no_set_threshold p = true) progs ->
  all_done dig_fresh dig_reset (dig_init circle) (dig_use blake) s progs pool0 g0 = true ->
  forall t, t < length progs ->
    nth t (run_interleaved dig_fresh dig_reset (dig_init circle) (dig_use blake) s progs pool0 g0) []
    = run_alone dig_fresh dig_reset (dig_init circle) (dig_use blake) g0 (nth t progs []).
Proof. intros circle blake. exact (pool_isolation _ _ _ _ _ _ _ _ _ _ _ (dig_laws circle blake)). Qed.

Theorem C16_pool_isolation_buffer : forall s progs pool0 g0,
  Forall buf_clean pool0 -> Forall (fun p => well_bracketed p = true) progs ->
  Forall (fun p => no_set_threshold p = true) progs ->
  all_done buf_fresh buf_reset buf_init buf_use s progs pool0 g0 = true ->
  forall t, t < length progs ->
    nth t (run_interleaved buf_fresh buf_reset buf_init buf_use s progs pool0 g0) []
    = run_alone buf_fresh buf_reset buf_init buf_use g0 (nth t progs []).
Proof. exact (pool_isolation _ _ _ _ _ _ _ _ _ _ _ buf_laws). Qed.

(* The settings cell is constant when no thread writes it; together with C16_pool_isolation (whose
   right-hand side is [run_alone ... g0]) the results depend on the settings only through that
   constant.  Needs neither bracketing nor the object laws. *)
Theorem C16_global_settings :
  forall (ostate input uop result G : Type) (fresh : ostate) (reset : ostate -> ostate)
         (init : input -> ostate -> ostate) (use : G -> uop -> ostate -> ostate * result)
         (s : sched) (progs : list (list (action input uop G))) (pool0 : list ostate) (g0 : G),
  Forall (fun p => no_set_threshold p = true) progs ->
  final_glob fresh reset init use s progs pool0 g0 = g0.
Proof. exact global_settings_constant. Qed.

(* ---------- examples: premises satisfiable, hypotheses necessary ---------- *)
Local Open Scope N_scope.
Notation DA := (action (N * list N) N unit).
Definition lookup (k0 : N) (m : list N) (levels : list N) : list DA :=
  [AGet; AInit (k0, m)] ++ map (fun l => AUse l) levels ++ [APut].
Definition dprogs : list (list DA) :=
  [ lookup 5 [1; 2; 3] [0; 1; 2] ++ lookup 5 [4] [0];
    lookup 9 [7; 7] [0; 3; 1; 4];
    lookup 5 [1; 2; 3] [2] ].
(* a dirty pool: stale msg, stale circleHash64, garbage scratch; only blake3Hash is as Reset leaves it *)
Definition dpool0 : list dig := [mk_dig 77 empty_b3 [9; 9; 9] [8; 8]; dig_reset (mk_dig 3 [1; 2; 3; 4] [5] [6])].
(* thread 0 finishes a lookup; thread 1 then takes the very object thread 0 returned (its blake3
   cache was filled), thread 2 takes the dirty one, thread 0 gets a New one; the rest interleaves *)
Definition dsched : sched :=
  [(0,1); (0,0); (0,0); (0,0); (0,0); (0,0); (1,0); (2,0); (0,0);
   (1,0); (2,0); (0,0); (1,0); (2,0); (0,0); (1,0); (2,0); (0,0); (1,0); (1,0); (1,0)]%nat.
Definition drun := run_interleaved dig_fresh dig_reset (dig_init toy_circle) (dig_use toy_blake).
Definition dalone := run_alone dig_fresh dig_reset (dig_init toy_circle) (dig_use toy_blake) tt.

Example C16_pool_premises_satisfiable :
  Forall dig_clean dpool0 /\ forallb well_bracketed dprogs = true /\ forallb no_set_threshold dprogs = true /\
  all_done dig_fresh dig_reset (dig_init toy_circle) (dig_use toy_blake) dsched dprogs dpool0 tt = true /\
  drun dsched dprogs dpool0 tt =
    [ [Some 149981; Some 209564; Some 209565; Some 159]; [Some 8873; Some 6954; Some 6952; None]; [Some 209565] ] /\
  map dalone dprogs = drun dsched dprogs dpool0 tt.
Proof. vm_compute. repeat split; repeat constructor. Qed.

(* NEGATIVE 1 — "digester returned to the pool before its last use" (a putDigester moved above the
   last Digest call, or a deleted defer followed by an early put): thread 0 reads thread 1's digest. *)
Definition bad_A : list DA := [AGet; AInit (5, [1; 2; 3]); APut; AUse 0].
Definition good_B : list DA := lookup 9 [7; 7] [0].
Definition bad_sched : sched := [(0,0); (0,0); (0,0); (1,0); (1,0); (0,0); (1,0); (1,0)]%nat.
Example C16_pool_needs_init :
  well_bracketed bad_A = false /\ well_bracketed good_B = true /\
  all_done dig_fresh dig_reset (dig_init toy_circle) (dig_use toy_blake) bad_sched [bad_A; good_B] [] tt = true /\
  drun bad_sched [bad_A; good_B] [] tt = [[Some (toy_circle 9 [7; 7])]; [Some (toy_circle 9 [7; 7])]] /\
  dalone bad_A = [Some 0] /\
  nth 0 (drun bad_sched [bad_A; good_B] [] tt) [] <> dalone bad_A.
Proof. vm_compute. repeat split; discriminate. Qed.

(* NEGATIVE 2 — the law [clean_reset] is needed: if putDigester did not call Reset (hash.go:79), the
   lazily cached blake3 words of the previous key would be served to the next user, because
   basicDigesterBuilder.Digest does not initialise blake3Hash.  Both threads are well bracketed. *)
Definition A1 : list DA := lookup 5 [1; 2; 3] [1].
Definition B1 : list DA := lookup 5 [4] [1].
Definition seq_sched : sched := [(0,0); (0,0); (0,0); (0,0); (1,0); (1,0); (1,0); (1,0)]%nat.
Example C16_pool_needs_reset :
  forallb well_bracketed [A1; B1] = true /\
  run_interleaved dig_fresh (fun o => o) (dig_init toy_circle) (dig_use toy_blake) seq_sched [A1; B1] [] tt
    = [[Some 209564]; [Some 209564]] /\
  run_alone dig_fresh (fun o => o) (dig_init toy_circle) (dig_use toy_blake) tt B1 = [Some 222] /\
  drun seq_sched [A1; B1] [] tt = [[Some 209564]; [Some 222]].
Proof. vm_compute. repeat split. Qed.

(* NEGATIVE 3 — [no_set_threshold] is needed: another goroutine changing the slab size changes a
   well-bracketed thread's size decision. *)
Notation BA := (action unit (list N) N).
Definition enc : list BA := [AGet; AInit tt; AUse [1; 2; 3]; APut].
Example C16_global_settings_needed :
  well_bracketed enc = true /\
  run_interleaved buf_fresh buf_reset buf_init buf_use [(1,0); (0,0); (0,0); (0,0); (0,0)]%nat [enc; [ASetG 2]] [] 1024
    = [[([1; 2; 3], false)]; []] /\
  run_alone buf_fresh buf_reset buf_init buf_use 1024 enc = [([1; 2; 3], true)].
Proof. vm_compute. repeat split. Qed.

Print Assumptions C16_pool_isolation.
Print Assumptions C16_pool_isolation_digester.
Print Assumptions C16_pool_isolation_buffer.
Print Assumptions C16_global_settings.
Print Assumptions C16_pool_needs_init.
