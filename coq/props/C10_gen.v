(* C10_gen.v — tie of the nested-container model's INLINING DECISION to the Go source text (translator
   `harness gen-go`, coq/gen/GoFuncs.v): whether a child array is written inside its parent's register or as a
   register of its own — the decision every "mutating a child updates the parent" step of C10 starts from —
   is computed by the transcribed ArrayDataSlab.Inlinable exactly as Nested.v computes it.
   This file holds property theorems only; each is closed by [exact]. *)
From Coq Require Import NArith ZArith List Bool.
From AtreeGen Require Import Consts CodecConsts.
From AtreeGen Require GoFuncs.
From AtreeModel Require Nested.
From AtreeProofs Require Import GoFuncs_proofs.
Import ListNotations.
Local Open Scope N_scope.

(* for every cached content size (uint32 range) and every limit: the method's answer on a stand-alone root slab
   (header.size = 5 + content) and on an already inlined slab (header.size = 17 + content) is the model's
   [inl_prefix + content <=? limit] *)
Theorem C10_gen_array_inlinable_matches_source :
  forall csize lim, c_inlinedArrayDataSlabPrefixSize + csize < 4294967296 ->
    GoFuncs.ArrayDataSlab_Inlinable (c_arrayRootDataSlabPrefixSize + csize) false false lim
      = (Nested.inl_prefix Nested.KArr + csize <=? lim) /\
    GoFuncs.ArrayDataSlab_Inlinable (c_inlinedArrayDataSlabPrefixSize + csize) false true lim
      = (Nested.inl_prefix Nested.KArr + csize <=? lim).
Proof. exact gen_ArrayDataSlab_Inlinable_eq. Qed.

(* a data slab without extra data (not a root) and an index slab are never inlinable, whatever their size:
   only single-slab containers are inlined, as Nested.v assumes *)
Theorem C10_gen_multi_slab_never_inlinable :
  forall h i lim, GoFuncs.ArrayDataSlab_Inlinable h true i lim = false /\
                  GoFuncs.ArrayMetaDataSlab_Inlinable lim = false.
Proof. exact gen_Inlinable_never. Qed.

Example C10_gen_example_inlinable :
  GoFuncs.ArrayDataSlab_Inlinable 105 false false 117 = true /\
  GoFuncs.ArrayDataSlab_Inlinable 106 false false 117 = false /\
  GoFuncs.ArrayDataSlab_Inlinable 117 false true 117 = true /\
  GoFuncs.ArrayDataSlab_Inlinable 118 false true 117 = false /\
  GoFuncs.ArrayDataSlab_Inlinable 30 true false 117 = false.
Proof. exact gen_example_inlinable. Qed.

Print Assumptions C10_gen_array_inlinable_matches_source.
Print Assumptions C10_gen_multi_slab_never_inlinable.
