(* C11 — Detached containers and stale handles cannot corrupt a former parent.
   Model: theories/Nested.v.  [detached f h]: h is in no slot of any container and is stored
   on its own (not inlined). *)
From Coq Require Import ZArith NArith List Bool Lia.
From AtreeModel Require Import Nested.
From AtreeProofs Require Import Nested_proofs Nested_examples.
Import ListNotations.
Local Open Scope N_scope.

(* removing / overwriting the slot that holds h (Array.Remove, Array.Set, OrderedMap.Remove,
   OrderedMap.Set on the key) leaves h detached: in no slot, uninlined and stored *)
Theorem C11_detach : forall n g f p o f' ok i s h w,
  fwf n g f -> edge f p i s h w -> op_ok n f (cop_nop p o) -> child_step n g f p o = (f', ok) ->
  (o = CRemove i \/ (exists e, o = CSet i e) \/ o = CMRemove (s_kid s) \/ (exists ksz e, o = CMSet (s_kid s) ksz e)) ->
  detached f' h.
Proof. exact C11_detach_l. Qed.

(* any operation through the handle of a detached container h: every other container x — in
   particular the former parent, whatever now occupies the old position — keeps its state (content,
   cached sizes, index map, callback) and its write-set status, except a child handed to the
   operation and the children of h itself; the stale callback is dropped by the first lookup that
   misses (it survives only while h is too large for the old slot, in which case the callback
   returns before looking at the parent) *)
Theorem C11_detached_frame : forall n g f h o f' ok,
  fwf n g f -> detached f h -> op_ok n f (cop_nop h o) -> child_step n g f h o = (f', ok) ->
  ok = true /\
  (forall x, x <> h -> ~ new_child o x -> (forall i s w, ~ edge f h i s x w) ->
             fget f' x = fget f x /\ dirty f' x = dirty f x) /\
  (forall ct ct', fget f h = Some ct -> fget f' h = Some ct' ->
     c_upd ct' = None \/
     (c_upd ct' = c_upd ct /\ c_inl ct' = false /\
      (o <> CTouch -> exists u, c_upd ct = Some u /\ ~ inl_size ct' <= u_lim u))).
Proof.
  intros n g f h o f' ok H1 H2 H3 H4.
  destruct (C11_detached_l n g f h o f' ok H1 H2 H3 H4) as (A & B & C & _). auto.
Qed.

(* ... and h itself stays an intact value: still in no slot and stored on its own (same value ID h),
   its slab written, and the whole forest (h's own subtree included) valid, so that it can be
   mutated further, reloaded, or attached to another parent (C10_reachable: insertion of an
   unattached container is an ordinary operation) *)
Theorem C11_detached_intact : forall n g f h o f' ok,
  fwf n g f -> detached f h -> op_ok n f (cop_nop h o) -> child_step n g f h o = (f', ok) ->
  detached f' h /\ fwf n g f' /\ dirty f' h = Some true.
Proof.
  intros n g f h o f' ok H1 H2 H3 H4.
  destruct (C11_detached_l n g f h o f' ok H1 H2 H3 H4) as (_ & _ & _ & D & E & F). auto.
Qed.

(* non-vacuity: parent 1 = [child 2, 99]; Remove(0) detaches child 2 (handle kept, stale callback
   to parent 1); an append through the handle leaves parent 1 and its write-set status untouched
   and drops the callback *)
Example C11_hypotheses_inhabited :
  fwf 8 cfg1024 f1 /\ detached f1 2 /\ op_ok 8 f1 (cop_nop 2 (CInsert 5 (sc 15))) /\
  (let f' := fst (child_step 8 cfg1024 f1 2 (CInsert 5 (sc 15))) in
   fget f' 1 = fget f1 1 /\ dirty f' 1 = dirty f1 1 /\
   option_map c_upd (fget f1 2) = Some (Some (mkUpd 1 0 501 0)) /\
   option_map c_upd (fget f' 2) = Some None).
Proof. split; [exact fwf_f1|]. split; [exact detached_f1|]. split; [exact op_ok_f1_append|exact detached_example]. Qed.

Print Assumptions C11_detach.
Print Assumptions C11_detached_frame.
Print Assumptions C11_detached_intact.
