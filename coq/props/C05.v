(* C05 — Slab trees stay well-formed and every register stays inside its size band (arrays).
   Property theorems only; each is closed by [exact] of a lemma of proofs/Settings_proofs.v,
   proofs/Rebalance_proofs.v, proofs/ArrayFixup_proofs.v or proofs/Array_proofs.v.

   Vocabulary (theories/ArrayInv.v): [wfn c d n] — subtree n of height d is internally consistent
   (every cached size/count, every parent copy of a child header, the running sums agree with what
   they summarise; every element is within the inline limit; all leaves at the same depth; every
   child of an index slab is inside the band); [in_band c n] — cmin <= size <= cmax;
   [wf_root]/[awf] — the root: a data slab (root prefix, no lower bound) or an index slab with at
   least two children, never above the maximum; element count <= 2^32-1.
   [last_next n] (Rebalance_proofs) — the sibling link of the rightmost leaf of n.
   c = set_threshold T for a legal slab size T (256..32768) throughout. *)
From Coq Require Import ZArith NArith List Bool.
From AtreeGen Require Import Consts.
From AtreeModel Require Import Settings ArrayTree ArrayInv.
From AtreeProofs Require Import Settings_proofs Rebalance_proofs ArrayFixup_proofs Array_proofs.
Import ListNotations.
Local Open Scope N_scope.

(* "half" is floor(T/2), "1.5x" is floor(1.5 T); two maximal elements and the prefix fit the target *)
Theorem C05_settings : forall T, valid_T T ->
  let c := set_threshold T in
  cmin c = T / 2 /\ cmax c = T + T / 2 /\
  2 * cinl_arr c + c_arrayDataSlabPrefixSize <= T /\
  2 * (cinl_melem c + c_digestSize) + c_mapDataSlabPrefixSize + c_hkeyElementsPrefixSize <= T /\
  2 * cinl_mkey c + c_singleElementPrefixSize <= cinl_melem c /\
  0 < cinl_arr c /\ 0 < cinl_mkey c /\ cmin c <= cT c <= cmax c.
Proof. exact settings_facts. Qed.

(* any full data slab holds at least two elements *)
Theorem C05_full_has_two : forall T, valid_T T -> forall es,
  let c := set_threshold T in
  Forall (elem_ok c) es -> cmax c < P + sum_sz es -> (2 <= length es)%nat.
Proof. exact full_has_two. Qed.

(* Split of a slab that is at most one element (data slab; plus the 16 bytes by which a root data
   slab grows when it is re-based to the non-root prefix) resp. one child header (index slab) above
   the maximum: succeeds, both halves are consistent and inside the band, nothing is lost, the
   left half keeps the identity *)
Theorem C05_split_both_halves_in_band : forall T, valid_T T -> forall d n newid,
  let c := set_threshold T in
  wfn c d n ->
  cmax c < h_size (hdr_of n) ->
  h_size (hdr_of n) <= cmax c + (if is_data n then cinl_arr c + (P - RP) else HS) ->
  exists l r, n_split n newid = Ok (l, r) /\ wfn c d l /\ wfn c d r /\ in_band c l /\ in_band c r /\
    to_list l ++ to_list r = to_list n /\
    h_id (hdr_of l) = h_id (hdr_of n) /\ h_id (hdr_of r) = newid /\
    h_count (hdr_of l) + h_count (hdr_of r) = h_count (hdr_of n) /\
    last_next r = last_next n.
Proof. exact split_ok. Qed.

(* Merge concatenates; sizes add up minus one prefix; the left slab keeps its identity *)
Theorem C05_merge : forall T d l r,
  let c := set_threshold T in
  wfn c d l -> wfn c d r ->
  exists m, n_merge l r = Ok m /\ wfn c d m /\ to_list m = to_list l ++ to_list r /\
    h_size (hdr_of m) + (if is_data l then P else PM) = h_size (hdr_of l) + h_size (hdr_of r) /\
    h_id (hdr_of m) = h_id (hdr_of l) /\
    h_count (hdr_of m) = h_count (hdr_of l) + h_count (hdr_of r) /\
    (PM < h_size (hdr_of r) -> last_next m = last_next r).
Proof. exact merge_ok. Qed.

(* the left sibling can lend: after LendToRight both slabs are inside the band *)
Theorem C05_lend_keeps_bands : forall T, valid_T T -> forall d l r need,
  let c := set_threshold T in
  wfn c d l -> wfn c d r -> in_band c l ->
  h_size (hdr_of r) + need = cmin c -> 0 < need ->
  n_can_lend_to_right c l need = true ->
  exists l' r', n_lend_to_right c l r = Ok (l', r') /\
    wfn c d l' /\ wfn c d r' /\ in_band c l' /\ in_band c r' /\
    to_list l' ++ to_list r' = to_list l ++ to_list r /\
    h_id (hdr_of l') = h_id (hdr_of l) /\ h_id (hdr_of r') = h_id (hdr_of r) /\
    h_count (hdr_of l') + h_count (hdr_of r') = h_count (hdr_of l) + h_count (hdr_of r) /\
    (PM < h_size (hdr_of r) -> last_next r' = last_next r).
Proof. exact lend_ok. Qed.

(* the right sibling can lend: after BorrowFromRight both slabs are inside the band *)
Theorem C05_borrow_keeps_bands : forall T, valid_T T -> forall d l r need,
  let c := set_threshold T in
  wfn c d l -> wfn c d r -> in_band c r ->
  h_size (hdr_of l) + need = cmin c -> 0 < need ->
  n_can_lend_to_left c r need = true ->
  exists l' r', n_borrow_from_right c l r = Ok (l', r') /\
    wfn c d l' /\ wfn c d r' /\ in_band c l' /\ in_band c r' /\
    to_list l' ++ to_list r' = to_list l ++ to_list r /\
    h_id (hdr_of l') = h_id (hdr_of l) /\ h_id (hdr_of r') = h_id (hdr_of r) /\
    h_count (hdr_of l') + h_count (hdr_of r') = h_count (hdr_of l) + h_count (hdr_of r) /\
    last_next r' = last_next r.
Proof. exact borrow_ok. Qed.

(* a sibling inside the band that cannot lend: the merged slab does not exceed the maximum *)
Theorem C05_merge_le_max : forall T, valid_T T -> forall d l r need,
  let c := set_threshold T in
  wfn c d l -> wfn c d r -> in_band c l ->
  h_size (hdr_of r) + need = cmin c -> 0 < need ->
  n_can_lend_to_right c l need = false ->
  h_size (hdr_of l) + h_size (hdr_of r) <= cmax c + (if is_data l then P else PM).
Proof. exact cannot_lend_right_merge_le_max. Qed.

Theorem C05_merge_le_max_left : forall T, valid_T T -> forall d l r need,
  let c := set_threshold T in
  wfn c d l -> wfn c d r -> in_band c r ->
  h_size (hdr_of l) + need = cmin c -> 0 < need ->
  n_can_lend_to_left c r need = false ->
  h_size (hdr_of l) + h_size (hdr_of r) <= cmax c + (if is_data l then P else PM).
Proof. exact cannot_lend_left_merge_le_max. Qed.

(* MergeOrRebalanceChildSlab on an index slab with at least two children, one of which (at
   position |pre|) underflows: never reaches the "panic" cell of the decision table, returns an
   index slab that is consistent again with every child inside the band, the same elements, the
   same count; its own size is unchanged (rebalance) or one header smaller (merge) *)
Theorem C05_merge_or_rebalance : forall T, valid_T T -> forall d h ch need,
  let c := set_threshold T in
  wfn c d ch -> h_size (hdr_of ch) + need = cmin c -> 0 < need -> PM < h_size (hdr_of ch) ->
  forall pre post,
  kids_ok T d pre -> kids_ok T d post -> (pre <> [] \/ post <> []) ->
  let cs := pre ++ ch :: post in
  h_count h = sum_cnt (map hdr_of cs) -> h_size h = PM + N.of_nat (length cs) * HS ->
  exists n' lg,
    merge_or_rebalance c h (map hdr_of cs) (psums 0 (map hdr_of cs)) cs (length pre) ch need = Ok (n', lg) /\
    fix_good T d h cs n' /\ (h_size (hdr_of n') = h_size h \/ h_size (hdr_of n') + HS = h_size h).
Proof. exact merge_or_rebalance_ok. Qed.

(* every operation keeps the array invariant.  [awf] alone is not inductive (it does not mention
   sibling links, but promoting the last remaining leaf to the root needs its link to be 0, see
   [C05_awf_alone_not_inductive]); the invariant carried through a history is [awf] together with
   "the rightmost leaf has no right sibling". *)
Theorem C05_array_wf_preserved : forall T, valid_T T -> forall a o,
  let c := set_threshold T in
  awf c a -> last_next (a_root a) = 0 -> aop_ok c o ->
  awf c (fst (fst (a_step c a o))) /\ last_next (a_root (fst (fst (a_step c a o)))) = 0.
Proof. exact array_wf_preserved. Qed.

Theorem C05_reachable : forall T, valid_T T -> forall rootid ti ops,
  let c := set_threshold T in
  Forall (aop_ok c) ops -> awf c (fst (a_run c (fst (arr_init rootid ti)) ops)).
Proof. exact reachable_awf. Qed.

(* the boolean checker applied by the harness to dumps of the implementation implies the invariant *)
Theorem C05_checker_sound : forall c n, wf_rootb c n = true -> wf_root c n.
Proof. exact wf_rootb_sound. Qed.

(* an unreachable state satisfying [awf] whose successor (two removals: merge + promotion) is a
   root data slab with sibling link 7 *)
Theorem C05_awf_alone_not_inductive :
  let c := set_threshold 256 in
  let mk := fun i : Z => mkelem i 20 0 in
  let l := AD (mkhdr 2 141 6) 3 (map mk [1;2;3;4;5;6]%Z) in
  let r := AD (mkhdr 3 141 6) 7 (map mk [7;8;9;10;11;12]%Z) in
  let a := mkarr (AM (mkhdr 1 40 12) [hdr_of l; hdr_of r] [6; 12] [l; r]) 3 0 in
  wf_rootb c (a_root a) = true /\ a_count a <= max_count /\
  let a2 := fst (fst (a_step c (fst (fst (a_step c a (ORemove 0)))) (ORemove 0))) in
  exists h nx es, a_root a2 = AD h nx es /\ nx = 7.
Proof. exact awf_alone_not_inductive. Qed.

(** Non-vacuity *)
Definition ex_apps (n : nat) (sz : N) : list aop :=
  map (fun i => OAppend (mkelem (Z.of_nat i) sz 0)) (seq 1 n).

(* 60 appends of maximal elements (117 bytes at T = 256) give a tree of height 2 with an index-slab
   root; the checker accepts it *)
Example C05_example_height2 :
  let c := set_threshold 256 in
  let a := fst (a_run c (fst (arr_init 1 7)) (ex_apps 60 117)) in
  Forall (aop_ok c) (ex_apps 60 117) /\
  wf_rootb c (a_root a) = true /\ wfnb c (a_root a) = Some 2%nat /\ is_data (a_root a) = false /\
  a_count a = 60 /\ last_next (a_root a) = 0.
Proof.
  cbv zeta. split; [|vm_compute; repeat split; reflexivity].
  unfold ex_apps. apply Forall_forall. intros o Ho. apply in_map_iff in Ho. destruct Ho as (i & <- & _).
  cbn. repeat split; vm_compute; congruence.
Qed.

(* a leaf of three elements of the maximal inline size at T = 257: full needs a fourth *)
Example C05_example_leaf :
  let c := set_threshold 257 in
  cinl_arr c = 118 /\
  wfnb c (AD (mkhdr 5 375 3) 0 [mkelem 1 118 0; mkelem 2 118 0; mkelem 3 118 0]) = Some 0%nat /\
  n_is_full c (AD (mkhdr 5 375 3) 0 [mkelem 1 118 0; mkelem 2 118 0; mkelem 3 118 0]) = false.
Proof. vm_compute. repeat split; reflexivity. Qed.

Print Assumptions C05_settings.
Print Assumptions C05_full_has_two.
Print Assumptions C05_split_both_halves_in_band.
Print Assumptions C05_merge.
Print Assumptions C05_lend_keeps_bands.
Print Assumptions C05_borrow_keeps_bands.
Print Assumptions C05_merge_le_max.
Print Assumptions C05_merge_le_max_left.
Print Assumptions C05_merge_or_rebalance.
Print Assumptions C05_array_wf_preserved.
Print Assumptions C05_reachable.
Print Assumptions C05_checker_sound.
Print Assumptions C05_awf_alone_not_inductive.
