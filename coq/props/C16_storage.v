(* C16 (logic part) — parallel commit / preload give the sequential result for every worker
   count and every arrival order of worker results. *)
From stdpp Require Import gmap sorting.
From Coq Require Import ZArith NArith.
From AtreeModel Require Import Storage StorageSpec.
From AtreeProofs Require Import Storage_proofs Commit_proofs StorageProps_proofs.

Theorem C16_parallel_commit_eq_sequential : forall s arrivals fail,
  arrivals ≡ₚ map (encode_job s) (sorted_owned_delta_keys s) ->
  fast_commit_with arrivals s fail = fast_commit s fail.
Proof. exact worker_arrival_order_irrelevant. Qed.

Theorem C16_preload_order_irrelevant : forall s ids ids', ids ≡ₚ ids' -> batch_preload s ids = batch_preload s ids'.
Proof. exact preload_order_irrelevant. Qed.

Print Assumptions C16_parallel_commit_eq_sequential.
Print Assumptions C16_preload_order_irrelevant.
