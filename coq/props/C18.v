(* C18 — Rejected requests are categorised and leave no trace.
   Property theorems only; each is closed by [exact]/[apply] of a lemma of proofs/Errors_proofs.v.

   Part A ties errors.go to the specification: gen/ErrCat.v is regenerated from errors.go on every
   run (constructor -> category, parsed AND observed at run time); theories/ErrSpec.v holds the
   expected category per cause, written from the property text.  The tables are finite and are
   checked completely by computation inside the kernel.

   Part B: in the executable models of arrays (ArrayTree.v), map elements (MapElems.v) and slab
   storage (Storage.v) a request answered by an error returns the state it was given — slab tree /
   element structure with every cached field, counts, identifier allocator — and issues no
   storeSlab / Storage.Remove call; hence a history and the same history without its rejected
   requests end in the same state with the same sequence of storage calls.  Which requests are
   rejected is characterised, and for arrays the refusal is shown to be decided by a read-only walk
   (errors raised after a slab was changed are never argument errors).

   Failures of caller-supplied components (comparator, hash-input provider, ledger read) during lookups and
   their ExternalError category are the subject of props/C18_callbacks.v over theories/Callback.v. *)
From Coq Require Import String NArith ZArith List Bool.
From AtreeGen Require Import Consts ErrCat.
From AtreeModel Require Settings ArrayTree ArrayInv MapElems MapElemsInv Storage.
From AtreeModel Require Import ErrSpec.
From AtreeProofs Require Import Errors_proofs.
From AtreeProofs Require MapElems_proofs.
Import ListNotations.

(* ---------------------------------------------------------------------- *)
(* A. categories                                                          *)
(* ---------------------------------------------------------------------- *)

(* every constructor of errors.go whose error type has an expected category assigns exactly it
   (category read from the constructor's body) *)
Theorem C18_categories :
  forall r, In r errcat_table -> forall c, expected_category (fst r) = Some c -> snd r = c.
Proof. exact Cat.categories. Qed.

(* the same for the category observed on the constructed error at run time *)
Theorem C18_categories_runtime :
  forall r, In r errcat_runtime -> forall c, expected_category (fst r) = Some c -> snd r = c.
Proof. exact Cat.categories_runtime. Qed.

(* non-vacuity: every cause of the specification IS a row of both generated tables, with its category *)
Theorem C18_expected_present :
  forall n c, expected_category n = Some c -> In (n, c) errcat_table /\ In (n, c) errcat_runtime.
Proof. intros n c H. split; [now apply Cat.expected_present|now apply Cat.expected_present_runtime]. Qed.

(* reading the source and observing the built library give the same category, per constructor *)
Theorem C18_static_runtime_agree :
  forall ctor ty s r, In (ctor, ty, s, Some r) errcat_rows -> r = s.
Proof. exact Cat.static_runtime_agree. Qed.

(* every constructor of errors.go assigns one of the three categories *)
Theorem C18_all_categorised : forall r, In r errcat_table -> snd r <> Uncategorised.
Proof. exact Cat.all_categorised. Qed.

(* the causes named by the property, literally *)
Theorem C18_named_causes :
  expected_category "IndexOutOfBoundsError" = Some User /\
  expected_category "SliceOutOfBoundsError" = Some User /\
  expected_category "InvalidSliceIndexError" = Some User /\
  expected_category "KeyNotFoundError" = Some User /\
  expected_category "CollisionLimitError" = Some Fatal /\
  expected_category "SlabIDError" = Some Fatal.
Proof. repeat split. Qed.

(* the errors of the models carry, in errors.go, the category the models assume; the argument
   errors of arrays are UserErrors *)
Theorem C18_model_errors_categorised :
  (forall e, e <> ArrayTree.EPanic -> In (aerr_name e, aerr_category e) errcat_table) /\
  (forall e, aerr_is_argument e = true ->
             aerr_category e = User /\ expected_category (aerr_name e) = Some (aerr_category e)) /\
  (forall e, In (merr_name e, merr_category e) errcat_table) /\
  (forall e, merr_is_argument e = true -> expected_category (merr_name e) = Some (merr_category e)) /\
  In (slabid_err_name, slabid_err_category) errcat_table /\
  expected_category slabid_err_name = Some slabid_err_category.
Proof.
  split; [exact Cat.aerr_in_table|]. split; [exact Cat.aerr_argument_user|].
  split; [exact Cat.merr_in_table|]. split; [exact Cat.merr_argument_expected|]. exact Cat.slabid_in_table.
Qed.

(* ---------------------------------------------------------------------- *)
(* B1. arrays                                                             *)
(* ---------------------------------------------------------------------- *)
Section arrays.
  Import Settings ArrayTree ArrayInv ErrSpec.ArrHist.
  Local Open Scope N_scope.

  (* a request answered by an error: same slab tree (all cached fields), same allocator, same type,
     and no storeSlab / Remove call *)
  Theorem C18_array_no_trace : forall c a o e,
    snd (fst (a_step c a o)) = RErr e -> fst (fst (a_step c a o)) = a /\ snd (a_step c a o) = [].
  Proof. exact Arr.array_no_trace. Qed.

  (* out-of-range requests on a well-formed array are rejected with the index error (Insert on a
     full array: with the max-count error, checked first as in array.go:462) *)
  Theorem C18_array_rejects : forall c a, awf c a ->
    (forall i, a_count a <= i -> a_step c a (OGet i) = (a, RErr EIndexOOB, [])) /\
    (forall i e, a_count a <= i -> a_step c a (OSet i e) = (a, RErr EIndexOOB, [])) /\
    (forall i, a_count a <= i -> a_step c a (ORemove i) = (a, RErr EIndexOOB, [])) /\
    (forall i e, a_count a < i -> a_count a <> max_count -> a_step c a (OInsert i e) = (a, RErr EIndexOOB, [])) /\
    (forall i e, a_count a = max_count -> a_step c a (OInsert i e) = (a, RErr EMaxCount, []) /\
                                           a_step c a (OAppend e) = (a, RErr EMaxCount, [])).
  Proof. exact Arr.array_rejects. Qed.

  (* exactness where it follows from the definitions alone: a data-slab root rejects nothing else.
     (For index-slab roots "an in-range index is never rejected" needs the tree invariant of C05 /
     the refinement of C01 and is not claimed here.) *)
  Theorem C18_array_rejects_exactly_leaf_root : forall c a h nx es,
    a_root a = AD h nx es -> h_count h = N.of_nat (length es) ->
    (forall i, a_count a <= i <-> snd (fst (a_step c a (OGet i))) = RErr EIndexOOB) /\
    (forall i e, a_count a <= i <-> snd (fst (a_step c a (OSet i e))) = RErr EIndexOOB) /\
    (forall i, a_count a <= i <-> snd (fst (a_step c a (ORemove i))) = RErr EIndexOOB).
  Proof. exact Arr.leaf_root_exact. Qed.

  (* ranges: exactly the invalid bounds are rejected, each with its own error *)
  Theorem C18_array_range_rejects_exactly : forall a s e,
    (a_range a s e = RErr ESliceOOB <-> (a_count a < s \/ a_count a < e)) /\
    (a_range a s e = RErr EInvalidSlice <-> (s <= a_count a /\ e <= a_count a /\ e < s)) /\
    ((exists l, a_range a s e = RList l) <-> (s <= e /\ e <= a_count a)).
  Proof. exact Arr.range_rejects. Qed.

  (* the index error of a mutation is decided by the read-only walk of Get (for Insert: of
     [n_insert_refused]): any failure after a slab was changed is a split/merge failure, never an
     argument error.  This is what makes "return the input state" faithful to the Go code, where
     ancestors are updated only after the child call returned without error. *)
  Theorem C18_array_refusal_is_a_lookup : forall c a i,
    (forall e, snd (fst (a_step c a (OSet i e))) = RErr EIndexOOB <-> snd (fst (a_step c a (OGet i))) = RErr EIndexOOB) /\
    (snd (fst (a_step c a (ORemove i))) = RErr EIndexOOB <-> snd (fst (a_step c a (OGet i))) = RErr EIndexOOB) /\
    (forall e, snd (fst (a_step c a (OInsert i e))) = RErr EIndexOOB <->
               (a_count a <> max_count /\ n_insert_refused (a_root a) i = true)).
  Proof. exact Arr.refusal_is_lookup. Qed.

  (* the history without its rejected requests: same final state, same answers to the accepted
     requests, same sequence of storage calls (hence the same registers after commit) *)
  Theorem C18_history : forall c a ops,
    a_run_full c a (a_filter c a ops) =
    let '(a1, xs, lg) := a_run_full c a ops in (a1, filter (fun x => negb (a_rejected x)) xs, lg).
  Proof. intros c a ops. exact (Arr.array_history c ops a). Qed.

  (* non-vacuity: a well-formed array; a history with three rejected requests among five *)
  Definition ex_cfg : cfg := set_threshold 1024.
  Definition ex_arr : arr := fst (arr_init 1 42).
  Definition ex_ops : list aop :=
    [OGet 0; OAppend (mkelem 7%Z 2 0); OSet 5 (mkelem 8%Z 2 0); ORange 1 0; OAppend (mkelem 9%Z 2 0); ORemove 2].
  Example C18_array_example :
    awf ex_cfg ex_arr /\
    snd (fst (a_run_full ex_cfg ex_arr ex_ops)) =
      [RErr EIndexOOB; RUnit; RErr EIndexOOB; RErr EInvalidSlice; RUnit; RErr EIndexOOB] /\
    a_filter ex_cfg ex_arr ex_ops = [OAppend (mkelem 7%Z 2 0); OAppend (mkelem 9%Z 2 0)] /\
    fst (fst (a_run_full ex_cfg ex_arr ex_ops)) = fst (fst (a_run_full ex_cfg ex_arr (a_filter ex_cfg ex_arr ex_ops))).
  Proof.
    split; [|vm_compute; repeat split].
    split; [|vm_compute; discriminate].
    unfold ex_arr, arr_init. cbn [fst a_root]. constructor; [constructor|reflexivity|vm_compute; reflexivity|vm_compute; discriminate].
  Qed.
End arrays.

(* ---------------------------------------------------------------------- *)
(* B2. maps (element level)                                               *)
(* ---------------------------------------------------------------------- *)
Section maps.
  Import MapElems MapElemsInv ErrSpec.MapHist.
  Local Open Scope N_scope.

  (* a request answered by an error — in particular an absent key (Get/Remove) and a Set beyond the
     collision limit — returns the same element structure, count and allocator, and issues no
     storage call.  (Holds for every state; [mwf] is not needed.) *)
  Theorem C18_map_no_trace : forall dg levels max_inline_elem limit s o e,
    snd (fst (m_step dg levels max_inline_elem limit s o)) = RErr e ->
    fst (fst (m_step dg levels max_inline_elem limit s o)) = s /\ snd (m_step dg levels max_inline_elem limit s o) = [].
  Proof. exact Mp.map_no_trace. Qed.

  (* the form asked for: well-formed state, one of the two argument errors *)
  Theorem C18_map_no_trace_wf : forall dg levels max_inline_elem limit s o s' e log,
    mwf dg levels s -> m_step dg levels max_inline_elem limit s o = (s', RErr e, log) ->
    e = EKeyNotFound \/ e = ECollisionLimit -> s' = s /\ log = [].
  Proof.
    intros dg levels mi lim s o s' e log _ H _.
    pose proof (Mp.map_no_trace dg levels mi lim s o e) as NT. rewrite H in NT. exact (NT eq_refl).
  Qed.

  (* which requests are rejected on a well-formed map: Get/Remove exactly for absent keys (with
     KeyNotFound and nothing else); Has never; Set only with the collision-limit error, only for an
     absent key, exactly when the dictionary-level criterion holds (C12 relates it to the fanout) *)
  Theorem C18_map_rejects_exactly : forall dg levels max_inline_elem limit s k, (1 <= levels)%nat -> mwf dg levels s ->
    let d := to_list (m_root s) in
    let st := m_step dg levels max_inline_elem limit s in
    (d_get d k = None <-> snd (fst (st (OGet k))) = RErr EKeyNotFound) /\
    (d_get d k = None <-> snd (fst (st (ORemove k))) = RErr EKeyNotFound) /\
    (snd (fst (st (OHas k))) = RBool (match d_get d k with Some _ => true | None => false end)) /\
    (forall e, snd (fst (st (OGet k))) = RErr e -> e = EKeyNotFound) /\
    (forall e, snd (fst (st (ORemove k))) = RErr e -> e = EKeyNotFound).
  Proof. intros. now apply Mp.map_rejects_exactly. Qed.

  Theorem C18_map_set_rejects_exactly : forall dg levels max_inline_elem limit s k v, (1 <= levels)%nat -> mwf dg levels s ->
    let d := to_list (m_root s) in
    (refused dg levels limit d (kid k) = true <->
       snd (fst (m_step dg levels max_inline_elem limit s (OSet k v))) = RErr ECollisionLimit) /\
    (forall e, snd (fst (m_step dg levels max_inline_elem limit s (OSet k v))) = RErr e ->
               e = ECollisionLimit /\ d_get d (kid k) = None).
  Proof. intros. now apply Mp.set_rejects_exactly. Qed.

  Theorem C18_map_errors_are_argument_errors : forall dg levels max_inline_elem limit s o e,
    (1 <= levels)%nat -> mwf dg levels s ->
    snd (fst (m_step dg levels max_inline_elem limit s o)) = RErr e -> merr_is_argument e = true.
  Proof. exact Mp.map_errors_are_argument_errors. Qed.

  Theorem C18_map_history : forall dg levels max_inline_elem limit s ops,
    m_run_full dg levels max_inline_elem limit s (m_filter dg levels max_inline_elem limit s ops) =
    let '(s1, xs, lg) := m_run_full dg levels max_inline_elem limit s ops in
    (s1, filter (fun x => negb (m_rejected x)) xs, lg).
  Proof. intros. apply Mp.map_history. Qed.

  (* non-vacuity: a well-formed map with limit 1 in which a Set is refused by the limit, a Get and a
     Remove by the absent key; the filtered history keeps the three accepted Sets *)
  Definition ex_dg (k : N) (l : nat) : N := match l with 0%nat => k / 100 | 1%nat => (k / 10) mod 10 | _ => 0 end.
  Definition ex_mops : list mop :=
    let K i := mkkv i 3 in
    [OSet (K 11) (mkkv 1 5); OGet 99; OSet (K 12) (mkkv 2 5); OSet (K 31) (mkkv 3 5);
     OSet (K 41) (mkkv 9 5); ORemove 77; OHas 77].
  Example C18_map_example :
    let r := m_run_full ex_dg 4 60 1 (m_init 0) ex_mops in
    mwf ex_dg 4 (fst (fst r)) /\
    snd (fst r) = [RPrev None; RErr EKeyNotFound; RPrev None; RPrev None; RErr ECollisionLimit; RErr EKeyNotFound; RBool false] /\
    length (m_filter ex_dg 4 60 1 (m_init 0) ex_mops) = 4%nat.
  Proof.
    cbn zeta. split; [|vm_compute; repeat split].
    assert (E : fst (fst (m_run_full ex_dg 4 60 1 (m_init 0) ex_mops)) = fst (m_run ex_dg 4 60 1 (m_init 0) ex_mops))
      by (vm_compute; reflexivity).
    rewrite E. apply MapElems_proofs.m_run_refines_all; [repeat constructor|apply MapElems_proofs.ewf_init; repeat constructor].
  Qed.
End maps.

(* ---------------------------------------------------------------------- *)
(* B3. storage: the undefined identifier                                  *)
(* ---------------------------------------------------------------------- *)
Section storage.
  Import Storage.

  (* Store / Remove under the undefined identifier: the slab-identifier error, write set, cache and
     ledger unchanged; the error is raised for nothing else *)
  Theorem C18_storage_undefined_id : forall s i v, is_undefined i = true ->
    step s (SStore i v) = (s, OErrSlabID) /\ step s (SRemove i) = (s, OErrSlabID).
  Proof. exact Sto.undefined_rejected. Qed.

  Theorem C18_storage_slabid_error_exact : forall s o, snd (step s o) = OErrSlabID ->
    fst (step s o) = s /\ exists i, is_undefined i = true /\ (o = SRemove i \/ exists v, o = SStore i v).
  Proof. exact Sto.slabid_error_only_undefined. Qed.

  Example C18_storage_example :
    step st_init (SStore (0, 0)%N (mkval 1 1)) = (st_init, OErrSlabID) /\ is_undefined (0, 1)%N = false.
  Proof. split; reflexivity. Qed.
End storage.

Print Assumptions C18_categories.
Print Assumptions C18_categories_runtime.
Print Assumptions C18_expected_present.
Print Assumptions C18_static_runtime_agree.
Print Assumptions C18_all_categorised.
Print Assumptions C18_named_causes.
Print Assumptions C18_model_errors_categorised.
Print Assumptions C18_array_no_trace.
Print Assumptions C18_array_rejects.
Print Assumptions C18_array_rejects_exactly_leaf_root.
Print Assumptions C18_array_range_rejects_exactly.
Print Assumptions C18_array_refusal_is_a_lookup.
Print Assumptions C18_history.
Print Assumptions C18_map_no_trace.
Print Assumptions C18_map_no_trace_wf.
Print Assumptions C18_map_rejects_exactly.
Print Assumptions C18_map_set_rejects_exactly.
Print Assumptions C18_map_errors_are_argument_errors.
Print Assumptions C18_map_history.
Print Assumptions C18_storage_undefined_id.
Print Assumptions C18_storage_slabid_error_exact.
