(* C03 (map part, in-memory side) — every mutation ends in storeSlab / Storage.Remove for each slab
   it touched: a slab that is mutated in memory but not recorded is impossible.

   [mnode_at t id] is the OWN content of the slab with index id, as the slab is encoded:
   - data slab:   header, sibling link, and its elements in which an external collision group is
                  only a reference to its slab ([strip_g]; the group's elements are not part of it);
   - external collision group slab (at any depth of the element structure): its elements;
   - index slab:  header and child-header copies.
   It is defined (not [None]) exactly for the indexes in [mslab_ids] ([mnode_at_none]).  Because Go
   slab objects are shared by pointer, a store publishes the slab's final content, hence the
   statements compare the tree before with the tree after the operation.  Holds for every
   configuration, digest function and limits. *)
From Coq Require Import NArith ZArith List Bool Permutation.
From AtreeModel Require Import Settings MapElems MapElemsInv MapTree MapTreeInv.
From AtreeProofs Require Import MapFrame_proofs.
Import ListNotations.
Local Open Scope N_scope.

(* For every reachable map and any operation with log lg:
   - the log never stores an index after removing it ([sar_free]), so "the last event" is the net
     effect; every freshly allocated index is stored;
   - for every index id:
     (i)   not in the log  =>  the slab with this index has exactly the same own content (or is
           absent) as before: nothing is mutated silently;
     (ii)  last event Store  =>  the slab is in the new tree;
     (iii) last event Remove =>  no slab of the new tree has this index;
     (iv)  a slab present now and absent before has been stored. *)
Theorem C03_map_frame : forall dg levels max_inline_elem limit c rootid ops o, 0 < rootid ->
  let t := fst (mt_run dg levels max_inline_elem limit c (fst (mt_init rootid)) ops) in
  forall t' out lg, mt_step dg levels max_inline_elem limit c t o = (t', out, lg) ->
    sar_free lg /\
    (forall id, t_alloc t < id <= t_alloc t' -> In (WStore id) lg) /\
    forall id,
      (~ touched lg id -> mnode_at (t_root t') id = mnode_at (t_root t) id) /\
      (last_ev lg id = Some EvStore -> mnode_at (t_root t') id <> None) /\
      (last_ev lg id = Some EvRemove ->
         mnode_at (t_root t') id = None /\ ~ In id (mslab_ids (t_root t'))) /\
      (mnode_at (t_root t') id <> None -> mnode_at (t_root t) id = None -> last_ev lg id = Some EvStore).
Proof. exact mreach_frame. Qed.

(* the same for one operation from ANY state satisfying the identifier invariant *)
Theorem C03_map_frame_step : forall dg levels max_inline_elem limit c t o t' out lg,
  mids_ok t -> shape (t_root t) ->
  mt_step dg levels max_inline_elem limit c t o = (t', out, lg) ->
  forall id,
    (~ touched lg id -> mnode_at (t_root t') id = mnode_at (t_root t) id) /\
    (last_ev lg id = Some EvStore -> mnode_at (t_root t') id <> None) /\
    (last_ev lg id = Some EvRemove ->
       mnode_at (t_root t') id = None /\ ~ In id (mslab_ids (t_root t'))) /\
    (mnode_at (t_root t') id <> None -> mnode_at (t_root t) id = None -> last_ev lg id = Some EvStore).
Proof. exact mframe_step. Qed.

Theorem C03_map_no_store_after_remove : forall dg levels max_inline_elem limit c t o t' out lg,
  mids_ok t -> shape (t_root t) ->
  mt_step dg levels max_inline_elem limit c t o = (t', out, lg) -> sar_free lg.
Proof. exact mlog_no_store_after_remove. Qed.

Theorem C03_map_fresh_ids_stored : forall dg levels max_inline_elem limit c t o t' out lg id,
  shape (t_root t) ->
  mt_step dg levels max_inline_elem limit c t o = (t', out, lg) ->
  t_alloc t < id <= t_alloc t' -> In (WStore id) lg.
Proof. exact mfresh_ids_stored. Qed.

(* [mnode_at] ranges exactly over the slabs of the tree, external collision group slabs included *)
Theorem C03_map_lookup_domain : forall n id, mnode_at n id = None <-> ~ In id (mslab_ids n).
Proof. exact mnode_at_none. Qed.

(** concrete steps at slab size 256 (history of props/C09_map.v: first-level digest k / 10):
    (1) the second colliding insert spills the inline group into slab 2: slab 2 appears and is
        stored, the data slab keeps a reference only;
    (2) a leaf split in a 2-leaf tree: the untouched leaf 3 (which references the external group)
        and the group's slab 2 are not in the log and keep their content;
    (3) removing a key of a 2-key external group collapses it: slab 2 is stored, then removed, and
        is gone; the untouched leaf 4 keeps its content. *)
Definition c03m_c := set_threshold 256.
Definition c03m_dg (k : N) (l : nat) : N := match l with O => k / 10 | 1%nat => k mod 10 | _ => k end.
Definition c03m_step := mt_step c03m_dg 4 (cinl_melem c03m_c) 8 c03m_c.
Definition c03m_set (k : N) : mop := OSet (mkkv k 9) (mkkv (k + 1000) 40).
Definition c03m_ops : list mop :=
  map c03m_set [10; 11; 12; 20; 30; 40; 50; 60; 70; 80; 90; 100; 110] ++
  map ORemove [110; 100; 90; 80; 70; 60; 11; 12].
Definition c03m_at (n : nat) : mtree :=
  fst (mt_run c03m_dg 4 (cinl_melem c03m_c) 8 c03m_c (fst (mt_init 1)) (firstn n c03m_ops)).

Example C03_map_example :
  (let t := c03m_at 1 in
   let '(t', _, lg) := c03m_step t (c03m_set 11) in
   lg = [WStore 2; WStore 1] /\ mnode_at (t_root t) 2 = None /\
   mnode_at (t_root t') 2 =
     Some (SG (HKey 1 [0; 1] [ESingle (mkkv 10 9) (mkkv 1010 40); ESingle (mkkv 11 9) (mkkv 1011 40)] 124)) /\
   mnode_at (t_root t') 1 = Some (SD (mkmhdr 1 39 1) 0 (HKey 0 [1] [EGroup (Some 2) (SList 0 [] 0)] 37))) /\
  (let t := c03m_at 12 in
   let '(t', _, lg) := c03m_step t (c03m_set 110) in
   lg = [WStore 4; WStore 4; WStore 5; WStore 1] /\
   map (last_ev lg) [1; 2; 3; 4; 5] = [Some EvStore; None; None; Some EvStore; Some EvStore] /\
   mslab_ids (t_root t) = [1; 3; 2; 4] /\ mslab_ids (t_root t') = [1; 3; 2; 4; 5] /\
   mnode_at (t_root t') 3 = mnode_at (t_root t) 3 /\ mnode_at (t_root t') 2 = mnode_at (t_root t) 2 /\
   mnode_at (t_root t) 5 = None /\ mnode_at (t_root t') 5 <> None /\
   mnode_at (t_root t') 1 <> mnode_at (t_root t) 1) /\
  (let t := c03m_at 20 in
   let '(t', _, lg) := c03m_step t (ORemove 12) in
   lg = [WStore 2; WRemove 2; WStore 3; WStore 1] /\
   map (last_ev lg) [1; 2; 3; 4] = [Some EvStore; Some EvRemove; Some EvStore; None] /\
   mnode_at (t_root t) 2 =
     Some (SG (HKey 1 [0; 2] [ESingle (mkkv 10 9) (mkkv 1010 40); ESingle (mkkv 12 9) (mkkv 1012 40)] 124)) /\
   mnode_at (t_root t') 2 = None /\ mslab_ids (t_root t') = [1; 3; 4] /\
   mnode_at (t_root t') 4 = mnode_at (t_root t) 4).
Proof. vm_compute. repeat split; discriminate. Qed.

Print Assumptions C03_map_frame.
Print Assumptions C03_map_frame_step.
Print Assumptions C03_map_no_store_after_remove.
Print Assumptions C03_map_fresh_ids_stored.
Print Assumptions C03_map_lookup_domain.
