(* C13 (map part, loaded-value iteration) — OrderedMap.IterateReadOnlyLoadedValues /
   ReadOnlyLoadedValueIterator on a partially loaded map: for EVERY set of loaded slabs the yield is an
   in-order subsequence of the full enumeration (whose canonical order is props/C13_map_tree.v), no key
   is yielded twice, an entry is yielded EXACTLY when every slab on its path (index slabs below the
   root, its data slab, the external collision-group slab) and the slabs holding its key and its value
   are loaded, and everything is yielded when all slabs are loaded.
   Model: theories/IterMap.v ([m_iter_loaded], transcribed from mapLoadedSlabIterator,
   mapLoadedElementIterator, MapLoadedValueIterator and getLoadedValue; [m_iter_object] is the iterator
   object state by state).  [kref]/[vref] say in which slab a key / value storable lives (0 = inline);
   they are arbitrary, as is the loaded set.  Full enumeration: [to_list_tree] of theories/MapTree.v. *)
From Coq Require Import NArith ZArith List Bool Sorted.
From AtreeModel Require Import Settings MapElems MapElemsInv MapTree MapTreeInv IterMap.
From AtreeProofs Require Import MapTree_proofs IterMap_proofs.
Import ListNotations.
Local Open Scope N_scope.

(* for ANY tree (no invariant needed), ANY placement of keys and values and ANY set of loaded slabs *)
Theorem C13_map_loaded_sublist : forall kref vref loaded t,
  sublist (m_iter_loaded kref vref loaded t) (to_list_tree (t_root t)).
Proof. exact map_loaded_sublist. Qed.

(* hence, on a well-formed map, the yield is in canonical order (lexicographic order of the digest
   vectors, non-decreasing; keys colliding on every level keep their insertion order: C13_map_tree_order, C02) ... *)
Theorem C13_map_loaded_sorted :
  forall T dg levels, valid_T T -> (1 <= levels)%nat ->
  forall t, mtwf dg levels (set_threshold T) t ->
  forall kref vref loaded,
    StronglySorted (fun p q => key_lt dg levels (kid (fst q)) (kid (fst p)) = false) (m_iter_loaded kref vref loaded t).
Proof. exact map_loaded_sorted. Qed.

(* ... and no key (a fortiori no entry) is yielded twice *)
Theorem C13_map_loaded_once :
  forall T dg levels, valid_T T -> (1 <= levels)%nat ->
  forall t, mtwf dg levels (set_threshold T) t ->
  forall kref vref loaded,
    NoDup (dkeys (m_iter_loaded kref vref loaded t)) /\ NoDup (m_iter_loaded kref vref loaded t).
Proof. exact map_loaded_once. Qed.

(* exact content.  [m_paths t] lists every entry of the map, in enumeration order, with the slabs that
   must be in memory to reach it: the index slabs below the root, the entry's data slab (unless it is
   the root), the external collision-group slab if the entry is in one, the key's own slab and the
   value's own slab if they have one.  The yield is exactly the entries all of whose path slabs are
   loaded (the harness evaluates this formula on the implementation's own walk, hook VerifMapIterDump,
   for every loaded subset it tries, and compares [m_iter_loaded] itself in lock-step). *)
Theorem C13_map_loaded_exact :
  forall T dg levels t, mtwf dg levels (set_threshold T) t ->
  forall kref vref loaded,
    map fst (m_paths kref vref t) = to_list_tree (t_root t) /\
    m_iter_loaded kref vref loaded t = map fst (filter (path_loaded loaded) (m_paths kref vref t)) /\
    (forall p, In p (m_iter_loaded kref vref loaded t) <->
               exists path, In (p, path) (m_paths kref vref t) /\ forall i, In i path -> loaded i = true).
Proof. exact map_loaded_exact. Qed.

(* the filter equation needs no invariant; the enumeration link only that the header copies name the children *)
Theorem C13_map_loaded_exact_any_tree : forall kref vref loaded t,
  m_iter_loaded kref vref loaded t = map fst (filter (path_loaded loaded) (m_paths kref vref t)) /\
  (m_hdrs_agree (t_root t) -> map fst (m_paths kref vref t) = to_list_tree (t_root t)).
Proof. exact map_loaded_exact_any. Qed.

(* everything loaded (slabs of the tree, external groups, key and value slabs): the full enumeration *)
Theorem C13_map_loaded_all :
  forall T dg levels t, mtwf dg levels (set_threshold T) t ->
  forall kref vref loaded,
    (forall id, loaded id = true) -> m_iter_loaded kref vref loaded t = to_list_tree (t_root t).
Proof. exact map_loaded_all. Qed.

Theorem C13_map_loaded_all_any_tree : forall kref vref loaded t,
  (forall id, loaded id = true) -> m_hdrs_agree (t_root t) ->
  m_iter_loaded kref vref loaded t = to_list_tree (t_root t).
Proof. exact map_loaded_all_any. Qed.

(* the iterator OBJECT (LIFO stack of slab iterators, data iterator with nested collision-group
   iterators, one entry per Next, drained until Next returns nil) yields exactly [m_iter_loaded]:
   for any tree, placement and loaded set, with the fuel the model computes from the tree *)
Theorem C13_map_loaded_object : forall kref vref loaded t,
  m_iter_object kref vref loaded t = m_iter_loaded kref vref loaded t.
Proof. exact m_iter_object_ok. Qed.

(* non-vacuity: 170 inserts (T = 256, collision limit 4, 89 first-level digests, 2 second-level, one at
   the deeper levels: inline groups, external groups, lists at the bottom) give a three-level tree
   (root index slab 1 over index slabs 23 and 24 over 27 data slabs) which the executable invariant
   checker accepts, hence [mtwf].  Every 7th key and every 5th value lives in its own slab.
   - only index slab 23, data slabs 2 and 16, external group 47 and key slab 577 loaded: ten entries;
     the others of those slabs are skipped because the value slab (3065, 3130, 3195), the external
     group (35) or key and value slab (570, 3070) are not loaded;
   - everything but index slab 24 loaded: exactly the first 84 entries;
   - everything loaded: the full enumeration, also through the iterator object. *)
Definition lx_dg (k : N) (l : nat) : N :=
  match l with O => (37 * k) mod 89 | 1%nat => k mod 2 | _ => 0 end.
Definition lx_sets (a n : nat) : list mop :=
  map (fun i => OSet (mkkv (N.of_nat i) 9) (mkkv (N.of_nat i + 1000) (if N.of_nat i mod 3 =? 0 then 40 else 12))) (seq a n).
Definition lx_tree : mtree :=
  let c := set_threshold 256 in
  fst (mt_run lx_dg 4 (cinl_melem c) 4 c (fst (mt_init 1)) (lx_sets 1 150 ++ lx_sets 179 20)).
Definition lx_kref (k : kv) : N := if kid k mod 7 =? 0 then 500 + kid k else 0.
Definition lx_vref (v : kv) : N := if kid v mod 5 =? 0 then 2000 + kid v else 0.
Definition lx_some (id : N) : bool := existsb (N.eqb id) [23; 2; 16; 47; 577].
Definition lx_not24 (id : N) : bool := negb (id =? 24).

Example C13_map_loaded_example :
  valid_T 256 /\ mtwf lx_dg 4 (set_threshold 256) lx_tree /\
  length (to_list_tree (t_root lx_tree)) = 170%nat /\
  (match t_root lx_tree with MM _ _ [MM _ h1 _; MM _ h2 _] => (length h1, length h2) | _ => (O, O) end) = (13, 14)%nat /\
  dkeys (m_iter_loaded lx_kref lx_vref lx_some lx_tree) = [89; 77; 142; 53; 41; 118; 29; 106; 17; 82] /\
  firstn 17 (map (fun x => (kid (fst (fst x)), snd x)) (m_paths lx_kref lx_vref lx_tree)) =
    [(89, [23; 2]); (77, [23; 2; 577]); (65, [23; 2; 3065]); (142, [23; 2]); (53, [23; 2]); (130, [23; 2; 3130]);
     (41, [23; 2]); (118, [23; 2]); (29, [23; 2]); (106, [23; 16; 47]); (17, [23; 16; 47]); (195, [23; 16; 47; 3195]);
     (94, [23; 16; 35]); (5, [23; 16; 35; 3005]); (183, [23; 16; 35]); (82, [23; 16]); (70, [23; 16; 570; 3070])] /\
  m_iter_loaded lx_kref lx_vref lx_not24 lx_tree = firstn 84 (to_list_tree (t_root lx_tree)) /\
  m_iter_loaded lx_kref lx_vref (fun _ => true) lx_tree = to_list_tree (t_root lx_tree) /\
  m_iter_object lx_kref lx_vref lx_some lx_tree = m_iter_loaded lx_kref lx_vref lx_some lx_tree /\
  m_iter_object lx_kref lx_vref (fun _ => true) lx_tree = to_list_tree (t_root lx_tree).
Proof.
  split; [vm_compute; split; discriminate|].
  split.
  { assert (H : mtwfb lx_dg 4 (set_threshold 256) lx_tree = true) by (vm_compute; reflexivity).
    exact (proj1 (mtwfb_sound lx_dg 4 (set_threshold 256) lx_tree H)). }
  vm_compute. repeat split.
Qed.

Print Assumptions C13_map_loaded_sublist.
Print Assumptions C13_map_loaded_sorted.
Print Assumptions C13_map_loaded_once.
Print Assumptions C13_map_loaded_exact.
Print Assumptions C13_map_loaded_exact_any_tree.
Print Assumptions C13_map_loaded_all.
Print Assumptions C13_map_loaded_all_any_tree.
Print Assumptions C13_map_loaded_object.
Print Assumptions C13_map_loaded_example.
