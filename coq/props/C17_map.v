(* C17 (map side) — NewMapFromBatchData and OrderedMap.CopyNonRefSimple give equivalent, valid,
   independent values.  Property theorems only; each is closed by [exact] of a lemma of
   proofs/MapBatch_proofs.v.  Model: theories/MapBatch.v on top of the slab-tree model MapTree.v and the
   element-level model MapElems.v (a colliding element is added by the very element.Set that
   OrderedMap.Set uses).  "Valid exactly as if built by individual operations" is stated as the SAME
   invariants that the operation-by-operation theorems preserve: [minv] (C02: Map_proofs.mt_step_ok,
   props/C02.v), its component [mtwf] (C05_map) and the full invariant [mtwf_full] with the sibling
   chain and pairwise distinct identifiers (C05_map_checker_sound, C09/C13 map side).

   Hypotheses on the stream, [stream_ok dg T ks st]:
     - level-0 digests never decrease (what NewMapFromBatchData checks);
     - no key occurs twice;
     - every pair respects the size contract of OrderedMap.Set after Storable() ([pair_ok] = the
       [mop_ok] of props/C02.v).
   The digest assignment dg, the number of digest levels (>= 1) and the slab size T (256..32768) are
   universally quantified; nothing is assumed about collisions. *)
From Coq Require Import ZArith NArith List Bool Lia Sorted.
From AtreeGen Require Import Consts.
From AtreeModel Require Import Settings MapElems MapElemsInv MapTree MapTreeInv MapBatch.
From AtreeProofs Require Import Settings_proofs MapElems_proofs MapTree_proofs MapRebalance_proofs MapTreeOps_proofs
  Map_proofs MapFrame_proofs MapBatch_proofs.
Import ListNotations.
Local Open Scope N_scope.

(* the stream hypothesis, spelled out *)
Theorem C17_map_stream_ok_def : forall dg T ks st,
  stream_ok dg T ks st <->
  sorted_from dg 0 st /\ NoDup (dkeys st) /\
  Forall (fun p : kv * kv => ksz (fst p) = ks (kid (fst p)) /\ ssize (fst p) (snd p) <= cinl_melem (set_threshold T)) st.
Proof. intros; reflexivity. Qed.

(* [sorted_from dg 0]: every element's level-0 digest is at least its predecessor's; implied by Sorted *)
Theorem C17_map_sorted_from_Sorted : forall dg st,
  Sorted (fun p q : kv * kv => dg (kid (fst p)) 0%nat <= dg (kid (fst q)) 0%nat) st -> sorted_from dg 0 st.
Proof. exact sorted_from_Sorted. Qed.

(* the construction never fails: no element, lend or merge error; the fuel of the level loop suffices *)
Theorem C17_map_batch_ok : forall T dg limit levels ks alloc seed st,
  valid_T T -> (1 <= levels)%nat -> seed <> 0 -> stream_ok dg T ks st ->
  let c := set_threshold T in
  map_from_batch_res dg levels (cinl_melem c) limit c alloc seed st =
  BOk (map_from_batch dg levels (cinl_melem c) limit c alloc seed st).
Proof. exact c17_map_batch_ok. Qed.

(* ... and it fails exactly with the documented errors otherwise: two adjacent elements whose level-0
   digests decrease (after an admissible prefix): "digest isn't sorted" *)
Theorem C17_map_batch_unsorted : forall T dg limit levels ks alloc seed st1 p q st2,
  valid_T T -> (1 <= levels)%nat -> seed <> 0 -> stream_ok dg T ks (st1 ++ [p]) ->
  dg (kid (fst q)) 0%nat < dg (kid (fst p)) 0%nat ->
  let c := set_threshold T in
  map_from_batch_res dg levels (cinl_melem c) limit c alloc seed (st1 ++ p :: q :: st2) = BErr BUnsorted.
Proof. exact c17_map_batch_unsorted. Qed.

(* a key that comes again while its level-0 digest is still the current one: duplicate key *)
Theorem C17_map_batch_duplicate : forall T dg limit levels ks alloc seed st1 k v v' st2 st3,
  valid_T T -> (1 <= levels)%nat -> seed <> 0 -> stream_ok dg T ks (st1 ++ (k, v) :: st2) ->
  Forall (fun p : kv * kv => dg (kid (fst p)) 0%nat = dg (kid k) 0%nat) st2 ->
  let c := set_threshold T in
  map_from_batch_res dg levels (cinl_melem c) limit c alloc seed (st1 ++ (k, v) :: st2 ++ (k, v') :: st3) = BErr BDuplicate.
Proof. exact c17_map_batch_duplicate. Qed.

(* seed 0 is refused before anything is allocated *)
Theorem C17_map_batch_seed0 : forall dg levels mie limit c alloc st,
  map_from_batch_res dg levels mie limit c alloc 0 st = BErr BSeed.
Proof. exact c17_map_batch_seed0. Qed.

(* content: the entries in tree order are the dictionary obtained by inserting the stream pair by pair
   ([ins_all]: every pair after all entries that are not greater in the canonical order); the count in the
   root's extra data is the stream length; on a canonically sorted stream (the iteration order of a source
   map with the same digests) the entries ARE the stream *)
Theorem C17_map_batch_content : forall T dg limit levels ks alloc seed st,
  valid_T T -> (1 <= levels)%nat -> seed <> 0 -> stream_ok dg T ks st ->
  let c := set_threshold T in
  let t := fst (map_from_batch dg levels (cinl_melem c) limit c alloc seed st) in
  to_list_tree (t_root t) = ins_all dg levels [] st /\ t_count t = N.of_nat (length st) /\
  (canon_sorted dg levels st -> to_list_tree (t_root t) = st).
Proof. exact c17_map_batch_content. Qed.

Theorem C17_map_ins_all_def : forall dg levels d st,
  ins_all dg levels d st = fold_left (fun acc p => d_ins dg levels acc (fst p) (snd p)) st d.
Proof. intros; reflexivity. Qed.

Theorem C17_map_canon_sorted_def : forall dg levels st,
  canon_sorted dg levels st <->
  StronglySorted (fun p q : kv * kv => key_lt dg levels (kid (fst q)) (kid (fst p)) = false) st.
Proof. intros; reflexivity. Qed.

(* structure: the SAME invariants the operation-by-operation theorems carry *)
Theorem C17_map_batch_wf : forall T dg limit levels ks alloc seed st,
  valid_T T -> (1 <= levels)%nat -> seed <> 0 -> stream_ok dg T ks st ->
  let c := set_threshold T in
  let t := fst (map_from_batch dg levels (cinl_melem c) limit c alloc seed st) in
  minv dg levels T ks t /\ mtwf dg levels c t /\ mtwf_full dg levels c t.
Proof. exact c17_map_batch_wf. Qed.

(* ... so that every theorem about operation histories applies to a batch-built map: any further
   history of admissible operations answers like the dictionary machine started from the batch
   content, and keeps the invariant *)
Theorem C17_map_batch_then_run : forall T dg limit levels ks alloc seed st ops,
  valid_T T -> (1 <= levels)%nat -> seed <> 0 -> stream_ok dg T ks st -> Forall (mop_ok T ks) ops ->
  let c := set_threshold T in
  let t := fst (map_from_batch dg levels (cinl_melem c) limit c alloc seed st) in
  let '(t', outs) := mt_run dg levels (cinl_melem c) limit c t ops in
  let '(d', outs') := d_run dg levels limit (ins_all dg levels [] st) ops in
  outs = outs' /\ to_list_tree (t_root t') = d' /\ t_count t' = N.of_nat (length d') /\
  minv dg levels T ks t' /\ t_rootid t' = t_rootid t.
Proof. exact c17_map_batch_then_run. Qed.

(* every slab of the result (tree slabs and external collision groups) carries an identifier allocated by
   the call itself; they are pairwise distinct *)
Theorem C17_map_batch_fresh : forall T dg limit levels ks alloc seed st,
  valid_T T -> (1 <= levels)%nat -> seed <> 0 -> stream_ok dg T ks st ->
  let c := set_threshold T in
  let t := fst (map_from_batch dg levels (cinl_melem c) limit c alloc seed st) in
  Forall (fun i => alloc < i /\ i <= t_alloc t) (slab_ids (t_root t)) /\ NoDup (slab_ids (t_root t)) /\
  alloc < t_alloc t.
Proof. exact c17_map_batch_fresh. Qed.

(* the build is framed: it issues only Store calls, all of them to identifiers it allocated itself *)
Theorem C17_map_batch_frame : forall T dg limit levels ks alloc seed st,
  valid_T T -> (1 <= levels)%nat -> seed <> 0 -> stream_ok dg T ks st ->
  let c := set_threshold T in
  let '(t, lg) := map_from_batch dg levels (cinl_melem c) limit c alloc seed st in
  Forall (fun w => exists i, w = WStore i /\ alloc < i /\ i <= t_alloc t) lg.
Proof. exact c17_map_batch_frame. Qed.

(* in particular it never writes to or removes a slab of a map that existed before *)
Theorem C17_map_batch_leaves_others : forall T dg limit levels ks alloc seed st (old : mtree),
  valid_T T -> (1 <= levels)%nat -> seed <> 0 -> stream_ok dg T ks st ->
  let c := set_threshold T in
  ids_ok old -> t_alloc old <= alloc ->
  Forall (fun w => match w with WStore i => ~ In i (slab_ids (t_root old)) | WRemove _ => False end)
         (snd (map_from_batch dg levels (cinl_melem c) limit c alloc seed st)).
Proof. exact c17_map_batch_leaves_others. Qed.

(* PARTIAL (as for arrays).  Full statement wanted: no operation on the result changes a slab of an older
   map and vice versa.  Proved: the identifier sets are disjoint; the frame of every single map operation
   is C03_map / C09_map (MapFrame_proofs.mframe_step: an operation only touches identifiers of its own
   tree or freshly allocated ones). *)
Theorem C17_map_independent_partial : forall T dg limit levels ks alloc seed st (old : mtree),
  valid_T T -> (1 <= levels)%nat -> seed <> 0 -> stream_ok dg T ks st ->
  let c := set_threshold T in
  ids_ok old -> t_alloc old <= alloc ->
  let t := fst (map_from_batch dg levels (cinl_melem c) limit c alloc seed st) in
  forall i, In i (slab_ids (t_root t)) -> ~ In i (slab_ids (t_root old)).
Proof. exact c17_map_independent_partial. Qed.

(* THE HEADLINE: the iteration order of any map satisfying the carried invariant is an admissible,
   canonically sorted stream ... *)
Theorem C17_map_source_stream_ok : forall T dg levels ks (src : mtree),
  valid_T T -> (1 <= levels)%nat -> minv dg levels T ks src ->
  stream_ok dg T ks (to_list_tree (t_root src)) /\ canon_sorted dg levels (to_list_tree (t_root src)).
Proof. exact source_stream_ok. Qed.

(* ... and the batch build from it (any seed but 0, any later allocator state) succeeds and yields a map with
   the source's content, order and count, satisfying the same invariants, under identifiers none of which
   the source uses; the build's write log never touches a slab of the source *)
Theorem C17_map_batch_of_source : forall T dg limit levels ks (src : mtree) alloc seed,
  valid_T T -> (1 <= levels)%nat -> seed <> 0 -> minv dg levels T ks src -> ids_ok src -> t_alloc src <= alloc ->
  let c := set_threshold T in
  let st := to_list_tree (t_root src) in
  exists t lg, map_from_batch_res dg levels (cinl_melem c) limit c alloc seed st = BOk (t, lg) /\
    to_list_tree (t_root t) = to_list_tree (t_root src) /\ t_count t = t_count src /\
    minv dg levels T ks t /\ mtwf_full dg levels c t /\
    (forall i, In i (slab_ids (t_root t)) -> ~ In i (slab_ids (t_root src))) /\
    Forall (fun w => match w with WStore i => ~ In i (slab_ids (t_root src)) | WRemove _ => False end) lg.
Proof. exact c17_map_batch_of_source. Qed.

(* copy: [can_copy] is the Go predicate (MapDataSlab / MapMetaDataSlab .canCopyWithoutSlabID); on a
   well-formed source (standalone, or inlined in its parent: [copy_src_ok]) an offered copy succeeds with
   the SAME element structure in ONE fresh, non-inlined root data slab that is again a well-formed root;
   a copy that is not offered is refused *)
Theorem C17_map_copy : forall T dg levels pl root inlined count alloc,
  (1 <= levels)%nat -> copy_src_ok dg levels T root inlined ->
  let c := set_threshold T in
  (can_copy pl root = match root with MD _ nx es => (nx =? 0) && can_copy_g pl es | MM _ _ _ => false end) /\
  (can_copy pl root = true ->
     exists t, copy_map pl root inlined count alloc = (inl (t, [WStore (alloc + 1)]), alloc + 1) /\
       (exists h', t_root t = MD h' 0 (match root with MD _ _ es => es | MM _ _ _ => HKey 0 [] [] 0 end)) /\
       to_list_tree (t_root t) = to_list_tree root /\ mwf_root dg levels c (t_root t) /\
       t_count t = count /\ t_alloc t = alloc + 1 /\ slab_ids (t_root t) = [alloc + 1] /\
       chain (t_root t) 0 /\ last_next (t_root t) = 0) /\
  (can_copy pl root = false -> exists e al, copy_map pl root inlined count alloc = (inr e, al)).
Proof. exact c17_map_copy. Qed.

Theorem C17_map_copy_src_ok_def : forall dg levels T root inlined,
  copy_src_ok dg levels T root inlined <->
  match root with
  | MD h nx (HKey 0 hks els sz) =>
    ewf_g dg levels 0 (HKey 0 hks els sz) /\ Forall (elem_ok (set_threshold T)) els /\ mh_first h = hd 0 hks /\
    mh_size h = (if inlined then IMP else RP) + sz /\ RP + sz <= cmax (set_threshold T)
  | MD _ _ _ => False
  | MM _ _ _ => inlined = false
  end.
Proof. intros; reflexivity. Qed.

(* every well-formed root is an admissible standalone source *)
Theorem C17_map_copy_src_of_root : forall dg levels T r,
  mwf_root dg levels (set_threshold T) r -> copy_src_ok dg levels T r false.
Proof. exact mwf_root_copy_src. Qed.

(* the predicate, semantically: a single data slab without sibling, no external collision group at any
   depth, every key and value a plain non-reference storable *)
Theorem C17_map_copy_predicate : forall pl root,
  can_copy pl root = true <->
  exists h es, root = MD h 0 es /\ gids es = [] /\ Forall (plain_pair pl) (to_list es).
Proof. exact c17_map_copy_predicate. Qed.

(* a copy of a map that satisfies the carried invariant satisfies it again (so C02 applies to copies) *)
Theorem C17_map_copy_minv : forall T dg levels ks pl (src : mtree) alloc,
  valid_T T -> (1 <= levels)%nat -> minv dg levels T ks src -> can_copy pl (t_root src) = true ->
  exists t, copy_map pl (t_root src) false (t_count src) alloc = (inl (t, [WStore (alloc + 1)]), alloc + 1) /\
    minv dg levels T ks t /\ to_list_tree (t_root t) = to_list_tree (t_root src) /\ t_rootid t = alloc + 1.
Proof. exact c17_map_copy_minv. Qed.

(** Non-vacuity and the branches of the construction, by evaluation of the model (T = 256: inline
    element limit 107, min 128, max 384, at most 20 headers per index slab). *)

Definition ex_c := set_threshold 256.
Definition ex_dg (k : N) (l : nat) : N := match l with O => 10 * k | _ => k end.
Definition ex_ks (_ : N) : N := 9.
Definition ex_pair (k vsz : N) : kv * kv := (mkkv k 9, mkkv (1000 + k) vsz).
Definition ex_stream (n : nat) : dict := map (fun i => ex_pair (N.of_nat i) 40) (seq 1 n).
Definition ex_build (dg : N -> nat -> N) (alloc : N) (st : dict) := map_from_batch dg 4 (cinl_melem ex_c) 255 ex_c alloc 7 st.

Example ex_hyps : valid_T 256 /\ stream_ok ex_dg 256 ex_ks (ex_stream 168) /\ canon_sorted ex_dg 4 (ex_stream 5).
Proof.
  split; [vm_compute; split; discriminate|]. split; [apply stream_okb_sound; vm_compute; reflexivity|].
  unfold canon_sorted. repeat constructor.
Qed.

(* 168 elements of cost 58: 42 data slabs of 4 elements; index slabs of 20, 20 and 2 headers, the last one
   underflows and its full left sibling lends: 20 / 11 / 11; a root over three index slabs; the content is
   the stream; the executable invariant checker accepts the tree *)
Example ex_three_levels :
  let t := fst (ex_build ex_dg 5 (ex_stream 168)) in
  mtwfb ex_dg 4 ex_c t = true /\ to_list_tree (t_root t) = ex_stream 168 /\ t_count t = 168 /\
  (match t_root t with MM _ hs _ => map mh_size hs | _ => [] end) = [372; 210; 210] /\ t_alloc t = 5 + 42 + 3 + 1.
Proof. vm_compute. repeat split. Qed.

(* tail rebalance by lending: 5 elements -> leaves of 3 + 2 (instead of 4 + 1) *)
Example ex_tail_lend :
  match t_root (fst (ex_build ex_dg 0 (ex_stream 5))) with
  | MM _ [h1; h2] _ => (mh_size h1, mh_size h2) = (200, 142)
  | _ => False
  end.
Proof. vm_compute. reflexivity. Qed.

(* tail merge: the left sibling (costs 100, 100, 30) cannot lend to the tiny last slab: one root data slab;
   identifier 2 stays allocated and unused, the only Store is the root's *)
Example ex_tail_merge :
  let st := [ex_pair 1 82; ex_pair 2 82; ex_pair 3 12; ex_pair 4 2] in
  stream_ok ex_dg 256 ex_ks st /\
  let '(t, lg) := ex_build ex_dg 0 st in
  (match t_root t with MD h 0 _ => (mh_id h, mh_size h) = (1, 2 + 8 + 250) | _ => False end) /\
  t_alloc t = 2 /\ lg = [WStore 1] /\ mtwfb ex_dg 4 ex_c t = true.
Proof. split; [apply stream_okb_sound; vm_compute; reflexivity|]. vm_compute. repeat split. Qed.

(* collisions: four keys per level-0 digest; every group outgrows the inline limit and moves to an external
   collision-group slab drawn from the same allocator; order inside a cluster follows the deeper digests *)
Definition ex_dgc (k : N) (l : nat) : N := match l with O => k / 4 | 1%nat => 3 - k mod 4 | _ => 0 end.
Definition is_ext (e : melem) : bool := match e with EGroup (Some _) _ => true | _ => false end.

Example ex_collisions :
  stream_ok ex_dgc 256 ex_ks (ex_stream 39) /\
  let '(t, lg) := ex_build ex_dgc 0 (ex_stream 39) in
  mtwfb ex_dgc 4 ex_c t = true /\ t_count t = 39 /\
  forallb is_ext (g_elems (elems_of_tree (t_root t))) = true /\
  to_list_tree (t_root t) = ins_all ex_dgc 4 [] (ex_stream 39) /\
  map (fun p => kid (fst p)) (firstn 7 (to_list_tree (t_root t))) = [3; 2; 1; 7; 6; 5; 4] /\
  (11 <=? length lg)%nat = true.
Proof. split; [apply stream_okb_sound; vm_compute; reflexivity|]. vm_compute. repeat split. Qed.

(* refusals *)
Example ex_refusals :
  map_from_batch_res ex_dg 4 (cinl_melem ex_c) 255 ex_c 0 7 [ex_pair 1 40; ex_pair 3 40; ex_pair 2 40] = BErr BUnsorted /\
  map_from_batch_res ex_dgc 4 (cinl_melem ex_c) 255 ex_c 0 7 [ex_pair 4 40; ex_pair 5 40; ex_pair 4 41] = BErr BDuplicate /\
  map_from_batch_res ex_dg 4 (cinl_melem ex_c) 255 ex_c 0 0 [] = BErr BSeed.
Proof. vm_compute. repeat split. Qed.

(* further operations on a batch-built map (C17_map_batch_then_run): remove, overwrite, insert *)
Example ex_then_run :
  let t := fst (ex_build ex_dg 0 (ex_stream 30)) in
  let '(t', outs) := mt_run ex_dg 4 (cinl_melem ex_c) 255 ex_c t [ORemove 7; OSet (mkkv 3 9) (mkkv 33 60); OSet (mkkv 99 9) (mkkv 1 5); OCount] in
  outs = [RPair (mkkv 7 9) (mkkv 1007 40); RPrev (Some (mkkv 1003 40)); RPrev None; RCount 30] /\ mtwfb ex_dg 4 ex_c t' = true.
Proof. vm_compute. repeat split. Qed.

(* a source map built by 60 Set operations in scrambled digest order (the history of props/C02.v), rebuilt by
   the batch constructor from its iteration order: same content; the two trees differ in shape *)
Definition ex_dg2 (k : N) (l : nat) : N := match l with O => (37 * k) mod 101 | 1%nat => k mod 3 | _ => 0 end.
Definition ex_src : mtree :=
  fst (mt_run ex_dg2 4 (cinl_melem ex_c) 255 ex_c (fst (mt_init 1))
         (map (fun i => OSet (mkkv (N.of_nat i) 9) (mkkv (N.of_nat i + 1000) 40)) (seq 1 60))).
Example ex_of_source :
  mtwfb ex_dg2 4 ex_c ex_src = true /\
  let t := fst (ex_build ex_dg2 (t_alloc ex_src) (to_list_tree (t_root ex_src))) in
  to_list_tree (t_root t) = to_list_tree (t_root ex_src) /\ t_count t = 60 /\ mtwfb ex_dg2 4 ex_c t = true /\
  negb (N.eqb (N.of_nat (length (slab_ids (t_root t)))) (N.of_nat (length (slab_ids (t_root ex_src))))) = true.
Proof. vm_compute. repeat split. Qed.

(* copies: a batch-built single-slab map is copied; an external group, a non-plain value, or an index root refuse *)
Example ex_copy :
  let src := fst (ex_build ex_dg 0 (ex_stream 3)) in
  copy_src_ok ex_dg 4 256 (t_root src) false /\ can_copy (fun _ => true) (t_root src) = true /\
  (match fst (copy_map (fun _ => true) (t_root src) false 3 20) with
   | inl (t, lg) => mtwfb ex_dg 4 ex_c t = true /\ slab_ids (t_root t) = [21] /\ lg = [WStore 21] /\
                    to_list_tree (t_root t) = ex_stream 3
   | inr _ => False
   end) /\
  can_copy (fun x => negb (kid x =? 1002)) (t_root src) = false /\
  can_copy (fun _ => true) (t_root (fst (ex_build ex_dgc 0 (ex_stream 3)))) = false /\
  copy_map (fun _ => true) (t_root (fst (ex_build ex_dg 0 (ex_stream 9)))) false 9 20 = (inr ECopyMultiSlab, 20).
Proof.
  cbv zeta. split; [|vm_compute; repeat split].
  apply mwf_root_copy_src. apply (mtwfb_sound ex_dg 4 ex_c). vm_compute. reflexivity.
Qed.

(* an inlined source: cached size 14 + elements; the copy has the root prefix *)
Example ex_copy_inlined :
  let es := HKey 0 [10; 20] [ESingle (mkkv 1 9) (mkkv 1001 3); ESingle (mkkv 2 9) (mkkv 1002 3)] 50 in
  let src := MD (mkmhdr 9 (14 + 50) 10) 0 es in
  copy_src_ok ex_dg 4 256 src true /\
  fst (copy_map (fun _ => true) src true 2 20) = inl (mkmt (MD (mkmhdr 21 (2 + 50) 10) 0 es) 21 2, [WStore 21]).
Proof.
  cbv zeta. split; [|vm_compute; reflexivity].
  cbn [copy_src_ok]. split; [|split; [|split; [reflexivity|split; [reflexivity|vm_compute; discriminate]]]].
  - constructor; [repeat constructor|repeat constructor|reflexivity|].
    constructor; [exact (wf_single ex_dg 4 0 (mkkv 1 9) (mkkv 1001 3))|].
    constructor; [exact (wf_single ex_dg 4 0 (mkkv 2 9) (mkkv 1002 3))|constructor].
  - repeat constructor; vm_compute; discriminate.
Qed.

Print Assumptions C17_map_batch_ok.
Print Assumptions C17_map_batch_unsorted.
Print Assumptions C17_map_batch_duplicate.
Print Assumptions C17_map_batch_seed0.
Print Assumptions C17_map_batch_content.
Print Assumptions C17_map_batch_wf.
Print Assumptions C17_map_batch_then_run.
Print Assumptions C17_map_batch_fresh.
Print Assumptions C17_map_batch_frame.
Print Assumptions C17_map_batch_leaves_others.
Print Assumptions C17_map_independent_partial.
Print Assumptions C17_map_source_stream_ok.
Print Assumptions C17_map_batch_of_source.
Print Assumptions C17_map_copy.
Print Assumptions C17_map_copy_predicate.
Print Assumptions C17_map_copy_minv.
Print Assumptions C17_map_copy_src_of_root.
Print Assumptions C17_map_sorted_from_Sorted.
Print Assumptions ex_three_levels.
Print Assumptions C17_map_stream_ok_def.
Print Assumptions C17_map_ins_all_def.
Print Assumptions C17_map_canon_sorted_def.
Print Assumptions C17_map_copy_src_ok_def.
