(* C03 (container level, arrays) — "After any successful commit, a brand-new storage instance
   opened over the same ledger registers reconstructs every live container with exactly the
   content it had at commit time, using nothing but those registers."

   This file composes
     - the array model (ArrayTree.v), which LOGS the storeSlab / Storage.Remove calls it issues,
       with its frame theorem (C03_array.v: a slab not named in the log is unchanged, ...),
     - the storage model (Storage.v: write set / cache / ledger) with its commit theorems
       (C03_storage.v, C15.v),
   into one statement about the ledger.  Vocabulary (theories/Durable.v):

   [shallow]              a slab's OWN content: data slab = header, sibling link, elements;
                          index slab = header, child-header copies, cumulative counts (child
                          identifiers only, no child content)
   [flatten n]            the slabs of tree n;  [assoc l id] the first binding of id
   [load fuel m id]       the reader: rebuilds a tree from a slab map m by following the slab
                          identifiers of the child-header copies; [load_arr] also returns the
                          type info found in the root slab
   [slab_codec]           K = (enc, dec, extv, proof of dec (enc x) = Some x): how a slab content
                          becomes a storage value; [g_codec] is a concrete one (field list in a
                          self-delimiting bit code), total, no side condition
   [sops addr cont lg]    the storage calls of a log: WStore id -> Store (addr,id) (cont id),
                          WRemove id -> Remove (addr,id)
   [init_sops]/[hist_sops] the calls of NewArray / of a history; every store carries the slab's
                          content at the END of the operation that issued it (Go slab objects are
                          shared by pointer).  [final_sops]: the same calls carrying the content at
                          the end of the WHOLE history, i.e. what Go's pointer-valued write set
                          encodes at commit time; C03_store_time_irrelevant shows that both leave
                          the same ledger.
   [ledger_map s addr]    id |-> base s !! (addr,id): the registers under the array's address
   [holds_exactly K M a]  M has every data / index slab of a as the encoding of its exact own
                          content, every external element slab of a, and nothing else but
                          (leftover) external element slabs
   The array's address is fresh in the starting state s0 (no register, no pending slab under it):
   the model's allocator (a_alloc) is the address's slab-index counter, i.e. one array per address;
   everything under other addresses in s0 is arbitrary. *)
From stdpp Require Import gmap sorting.
From Coq Require Import ZArith NArith List Bool.
From AtreeModel Require Import Storage StorageSpec Settings ArrayTree ArrayInv Durable.
From AtreeProofs Require Import Storage_proofs Commit_proofs StorageProps_proofs
  ArrayFrame_proofs Array_proofs Durable_proofs.
Local Open Scope N_scope.

(** D1 (C01: "can always be reopened by its root identifier"): every reachable array is rebuilt
    exactly from the list of its own slabs, starting from the root identifier *)
Theorem C01_array_reopen_by_root : forall T rootid ti ops, valid_T T -> 0 < rootid ->
  Forall (aop_ok (set_threshold T)) ops ->
  let a := fst (a_run (set_threshold T) (fst (arr_init rootid ti)) ops) in
  forall fuel, (length (flatten (a_root a)) < fuel)%nat ->
    load fuel (assoc (flatten (a_root a))) rootid = Some (a_root a).
Proof. exact reach_load_flatten. Qed.

(* for any tree with unique slab ids whose child-header copies name the children *)
Theorem C01_load_flatten : forall n fuel,
  NoDup (tree_ids n) -> hdrs_ok n -> (length (flatten n) < fuel)%nat ->
  load fuel (assoc (flatten n)) (nid n) = Some n.
Proof. exact load_flatten. Qed.

(** D2: replaying the logs of a history from creation against an empty slab map gives a map that
    holds every data / index slab of the final array with its exact content (and the type info
    at the root), has an entry for every external element slab, and no other data / index slab *)
Theorem C03_array_log_replay : forall c rootid ti ops, 0 < rootid ->
  let a := fst (a_run c (fst (arr_init rootid ti)) ops) in
  let m := replay cell_of c (fst (arr_init rootid ti)) ops (init_map cell_of rootid ti) in
  (forall id, (content a id <> None -> tree_part (m id) = content a id) /\
              (In id (ext_ids (to_list (a_root a))) -> m id <> None)) /\
  (forall id, content a id = None -> tree_part (m id) = None).
Proof. exact reach_run_represents. Qed.

(* one operation *)
Theorem C03_array_log_replay_step : forall c rootid ti ops o m, 0 < rootid ->
  let a := fst (a_run c (fst (arr_init rootid ti)) ops) in
  forall a' out lg, a_step c a o = (a', out, lg) ->
    rep m a /\ tight m a -> rep (apply_log_arr a' lg m) a' /\ tight (apply_log_arr a' lg m) a'.
Proof. exact reach_step_represents. Qed.

(** D3: the statement of C03 for arrays.  Any legal slab size T, any codec K, any owned address,
    any reachable storage state s0 in which the address is fresh, any history: issue the logged
    calls, commit without fault, re-create the storage.  Then the new instance has an empty
    write set and cache, the registers under the address hold exactly the array, and the reader
    gets the tree and the type info from the root identifier and the registers alone. *)
Theorem C03_array_commit_durable : forall K T addr rootid ti s0 ops,
  valid_T T -> addr <> 0 -> 0 < rootid ->
  reachable s0 -> (forall id, view s0 (addr, id) = None) ->
  Forall (aop_ok (set_threshold T)) ops ->
  let c := set_threshold T in
  let a0 := fst (arr_init rootid ti) in
  let a := fst (a_run c a0 ops) in
  let s1 := fst (run s0 (init_sops K addr rootid ti ++ hist_sops K addr c a0 ops)) in
  let s' := fst (step (fst (step s1 (SFastCommit None))) SRecreate) in
  deltas s' = ∅ /\ cache s' = ∅ /\
  (forall id, view s' (addr, id) = base s' !! (addr, id)) /\
  holds_exactly K (ledger_map s' addr) a /\
  forall fuel, (length (tree_ids (a_root a)) < fuel)%nat ->
    load_arr fuel (decode_map K (ledger_map s' addr)) rootid = Some (a_root a, a_type a).
Proof. exact reach_commit_durable. Qed.

(* hence: what is loaded has the elements of the model array, and its abstraction is the state of
   the plain-sequence specification (C01) after the same history *)
Theorem C03_array_commit_durable_seq : forall K T addr rootid ti s0 ops,
  valid_T T -> addr <> 0 -> 0 < rootid ->
  reachable s0 -> (forall id, view s0 (addr, id) = None) ->
  Forall (aop_ok (set_threshold T)) ops ->
  let c := set_threshold T in
  let a0 := fst (arr_init rootid ti) in
  let s1 := fst (run s0 (init_sops K addr rootid ti ++ hist_sops K addr c a0 ops)) in
  let s' := fst (step (fst (step s1 (SFastCommit None))) SRecreate) in
  exists n ty fuel,
    load_arr fuel (decode_map K (ledger_map s' addr)) rootid = Some (n, ty) /\
    to_list n = to_list (a_root (fst (a_run c a0 ops))) /\
    mkseq (abs_list n) ty = fst (seq_run (mkseq nil ti) ops).
Proof. exact reach_commit_durable_seq. Qed.

(* the calls carrying commit-time contents (pointer semantics) leave the same ledger *)
Theorem C03_store_time_irrelevant : forall K addr c rootid ti ops s0,
  addr <> 0 -> 0 < rootid -> reachable s0 ->
  base (fst (step (fst (run s0 (final_sops K addr c rootid ti ops))) (SFastCommit None))) =
  base (fst (step (fst (run s0 (init_sops K addr rootid ti ++
                                hist_sops K addr c (fst (arr_init rootid ti)) ops))) (SFastCommit None))).
Proof. exact reach_final_sops_same_ledger. Qed.

(** further array operations WITHOUT a commit (any operations, [ops2] is not restricted) do not
    reach the ledger: a brand-new storage still loads the array as of the commit *)
Theorem C03_array_crash : forall K T addr rootid ti s0 ops1 ops2,
  valid_T T -> addr <> 0 -> 0 < rootid ->
  reachable s0 -> (forall id, view s0 (addr, id) = None) ->
  Forall (aop_ok (set_threshold T)) ops1 ->
  let c := set_threshold T in
  let a0 := fst (arr_init rootid ti) in
  let a1 := fst (a_run c a0 ops1) in
  let s1 := fst (run s0 (init_sops K addr rootid ti ++ hist_sops K addr c a0 ops1)) in
  let s2 := fst (step s1 (SFastCommit None)) in
  let s3 := fst (run s2 (hist_sops K addr c a1 ops2)) in
  let s' := fst (step s3 SRecreate) in
  base s3 = base s2 /\ base s' = base s2 /\
  holds_exactly K (ledger_map s' addr) a1 /\
  forall fuel, (length (tree_ids (a_root a1)) < fuel)%nat ->
    load_arr fuel (decode_map K (ledger_map s' addr)) rootid = Some (a_root a1, a_type a1).
Proof. exact reach_crash_durable. Qed.

(** D4: commits anywhere.  [l1]: operations and commits in any order; then a commit; then [l2]:
    operations without commit; then a brand-new storage: the ledger holds the array as of the
    last commit.  ([drun] threads the array and the storage through the history.) *)
Theorem C03_array_last_commit : forall K T addr rootid ti s0 l1 l2,
  valid_T T -> addr <> 0 -> 0 < rootid ->
  reachable s0 -> (forall id, view s0 (addr, id) = None) ->
  Forall (aop_ok (set_threshold T)) (aops_of l1) -> no_commit l2 = true ->
  let c := set_threshold T in
  let a0 := fst (arr_init rootid ti) in
  let a1 := fst (a_run c a0 (aops_of l1)) in
  let st1 := drun K addr c a0 (fst (run s0 (init_sops K addr rootid ti))) l1 in
  let st2 := drun K addr c (fst st1) (fst (step (snd st1) (SFastCommit None))) l2 in
  let s' := fst (step (snd st2) SRecreate) in
  fst st1 = a1 /\
  fst st2 = fst (a_run c a0 (aops_of l1 ++ aops_of l2)) /\
  base (snd st2) = base (fst (step (snd st1) (SFastCommit None))) /\
  deltas s' = ∅ /\ cache s' = ∅ /\ base s' = base (fst (step (snd st1) (SFastCommit None))) /\
  (forall id, view s' (addr, id) = base s' !! (addr, id)) /\
  holds_exactly K (ledger_map s' addr) a1 /\
  forall fuel, (length (tree_ids (a_root a1)) < fuel)%nat ->
    load_arr fuel (decode_map K (ledger_map s' addr)) rootid = Some (a_root a1, a_type a1).
Proof. exact reach_last_commit_durable. Qed.

(** a codec exists: the concrete decoder inverts the concrete encoder on every slab content *)
Theorem C03_codec : forall x, g_dec (g_enc x) = Some x.
Proof. exact g_dec_enc. Qed.

(** Non-vacuity, at T = 256, address 5, root identifier 1, type info 7, concrete codec, from the
    empty storage.  History: 16 appends (root split into an index slab, further child splits), an
    overwrite with an externally stored value (slab 6), 8 removes at the front (rebalances and a
    MERGE that releases slab 3), a type change.  After commit and re-creation the ledger has
    exactly the registers 1 2 4 5 (tree) and 6 (external); the reader returns the model's tree
    and type 9; uncommitted further operations (PopIterate: removes every slab) change nothing. *)
Definition dx_c := set_threshold 256.
Definition dx_ops : list aop :=
  map (fun i => OAppend (mkelem (Z.of_nat i) 60 0)) (seq 1 16) ++
  [OSet 12 (mkelem 100 117 1); OInsert 1 (mkelem 101 30 0)] ++
  [ORemove 0; ORemove 0; ORemove 0; ORemove 0; ORemove 0; ORemove 0; ORemove 0; ORemove 0] ++
  [OSetType 9].
Definition dx_a0 := fst (arr_init 1 7).
Definition dx_a := fst (a_run dx_c dx_a0 dx_ops).
Definition dx_s1 := fst (run st_init (init_sops g_codec 5 1 7 ++ hist_sops g_codec 5 dx_c dx_a0 dx_ops)).
Definition dx_s2 := fst (step dx_s1 (SFastCommit None)).
Definition dx_s' := fst (step dx_s2 SRecreate).
Definition dx_s3 := fst (run dx_s2 (hist_sops g_codec 5 dx_c dx_a [OPop; OAppend (mkelem 7 7 0)])).

Example C03_durable_example :
  valid_T 256 /\ reachable st_init /\ (forall id, view st_init (5, id) = None) /\
  Forall (aop_ok dx_c) dx_ops /\
  (* the history splits, rebalances and merges *)
  removed (all_logs dx_c dx_a0 dx_ops) = [3] /\
  tree_ids (a_root dx_a) = [1; 2; 4; 5] /\ ext_ids (to_list (a_root dx_a)) = [6] /\
  map e_id (to_list (a_root dx_a)) = [8; 9; 10; 11; 12; 100; 14; 15; 16]%Z /\
  (* the write set before the commit, the ledger after *)
  map (fun id => match deltas dx_s1 !! (5, id) with Some (Some _) => 1 | Some None => 2 | None => 0 end)
      [1; 2; 3; 4; 5; 6; 7] = [1; 1; 2; 1; 1; 1; 0] /\
  map (fun id => match base dx_s' !! (5, id) with Some v => v_sz v | None => 999 end)
      [1; 2; 3; 4; 5; 6; 7] = [54; 201; 999; 141; 318; 0; 999] /\
  length (map_to_list (base dx_s')) = 5%nat /\
  base dx_s' !! (5, 4) = Some (mkval 22957440148383445512871504 141) /\
  (* the reader *)
  load_arr 5 (decode_map g_codec (ledger_map dx_s' 5)) 1 = Some (a_root dx_a, 9) /\
  load_arr 1 (decode_map g_codec (ledger_map dx_s' 5)) 1 = None /\
  (* not committed: not durable *)
  tree_ids (a_root (fst (a_run dx_c dx_a [OPop; OAppend (mkelem 7 7 0)]))) = [1] /\
  view dx_s3 (5, 2) = None /\
  load_arr 5 (decode_map g_codec (ledger_map (fst (step dx_s3 SRecreate)) 5)) 1 = Some (a_root dx_a, 9) /\
  (* commit-time contents: same ledger *)
  base (fst (step (fst (run st_init (final_sops g_codec 5 dx_c 1 7 dx_ops))) (SFastCommit None))) = base dx_s2.
Proof.
  split; [vm_compute; split; congruence|].
  split; [exists []; reflexivity|].
  split; [intros id; reflexivity|].
  split.
  { unfold dx_ops. repeat (apply Forall_app; split).
    - apply Forall_forall. intros o Ho. apply in_map_iff in Ho. destruct Ho as (i & <- & _).
      cbn. repeat split; vm_compute; congruence.
    - repeat constructor; vm_compute; congruence.
    - repeat constructor.
    - repeat constructor. }
  vm_compute. repeat (split; [exact eq_refl|]). exact eq_refl.
Qed.

(* D4, concretely: commit after 10 operations, 17 more operations, commit, PopIterate without
   commit, brand-new storage: the array as of the second commit *)
Example C03_last_commit_example :
  let l1 := map DOp (firstn 10 dx_ops) ++ [DCommit] ++ map DOp (skipn 10 dx_ops) in
  let l2 := [DOp OPop] in
  let st1 := drun g_codec 5 dx_c dx_a0 (fst (run st_init (init_sops g_codec 5 1 7))) l1 in
  let st2 := drun g_codec 5 dx_c (fst st1) (fst (step (snd st1) (SFastCommit None))) l2 in
  let s' := fst (step (snd st2) SRecreate) in
  aops_of l1 = dx_ops /\ no_commit l2 = true /\
  tree_ids (a_root (fst st2)) = [1] /\
  load_arr 5 (decode_map g_codec (ledger_map s' 5)) 1 = Some (a_root dx_a, 9).
Proof. vm_compute. repeat split. Qed.

(* [hdrs_ok] cannot be weakened to ArrayFrame_proofs.shape in C01_load_flatten: a tree of the right
   shape with unique identifiers whose child-header copy names another slab is not found again *)
Example C01_load_needs_header_ids :
  let n := AM (mkhdr 1 0 0) [mkhdr 9 0 0] [] [AD (mkhdr 2 0 0) 0 []] in
  shape n /\ NoDup (tree_ids n) /\ ~ hdrs_ok n /\ load 5 (assoc (flatten n)) 1 = None.
Proof.
  cbn zeta. split; [cbn; repeat split; congruence|]. split; [repeat constructor; cbn; intuition congruence|].
  split; [intros [H _]; discriminate H|reflexivity].
Qed.

Print Assumptions C01_array_reopen_by_root.
Print Assumptions C01_load_flatten.
Print Assumptions C03_array_log_replay.
Print Assumptions C03_array_log_replay_step.
Print Assumptions C03_array_commit_durable.
Print Assumptions C03_array_commit_durable_seq.
Print Assumptions C03_store_time_irrelevant.
Print Assumptions C03_array_crash.
Print Assumptions C03_array_last_commit.
Print Assumptions C03_codec.
