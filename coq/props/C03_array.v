(* C03 (array part, in-memory side) — every mutation ends in storeSlab / Storage.Remove for each
   slab it touched: a slab that is mutated in memory but not recorded is impossible.

   [node_at t id] is the OWN content of the tree slab with index id (data slab: header, sibling
   link, elements; index slab: header, child-header copies, cumulative counts) — it ranges over
   the data and index slabs of the tree; external value slabs (large values) are separate
   registers: the one created for a new large value is stored (it is in the log, and it is the
   only kind of stored id for which [node_at] is [None]); disposing of the one belonging to a
   returned element is the caller's job (see C09_array).  Because Go slab objects are shared by
   pointer, a store publishes the slab's final content, hence the statements compare the tree
   before with the tree after the operation. *)
From Coq Require Import NArith ZArith List Bool Permutation.
From AtreeModel Require Import Settings ArrayTree ArrayInv.
From AtreeProofs Require Import ArrayFrame_proofs.
Import ListNotations.
Local Open Scope N_scope.

(* For every reachable array and any operation with log lg:
   - the log never stores an index after removing it ([sar_free]), so "the last event" is the
     net effect; every freshly allocated index is stored;
   - for every index id:
     (i)   not in the log  =>  the slab with this index has exactly the same content (or is
           absent) as before: nothing is mutated silently;
     (ii)  last event Store  =>  the slab is in the new tree (or is a new external value slab);
     (iii) last event Remove =>  no slab of the new tree has this index;
     (iv)  a slab present now and absent before has been stored. *)
Theorem C03_array_frame : forall c rootid ti ops o, 0 < rootid ->
  let a := fst (a_run c (fst (arr_init rootid ti)) ops) in
  forall a' out lg, a_step c a o = (a', out, lg) ->
    sar_free lg /\
    (forall id, a_alloc a < id <= a_alloc a' -> In (WStore id) lg) /\
    forall id,
      (~ touched lg id -> node_at (a_root a') id = node_at (a_root a) id) /\
      (last_ev lg id = Some EvStore ->
         node_at (a_root a') id <> None \/ In id (ext_ids (to_list (a_root a')))) /\
      (last_ev lg id = Some EvRemove ->
         node_at (a_root a') id = None /\ ~ In id (slab_ids (a_root a'))) /\
      (node_at (a_root a') id <> None -> node_at (a_root a) id = None -> last_ev lg id = Some EvStore).
Proof. exact reach_frame. Qed.

(** concrete steps at slab size 256 on a 17-leaf tree: an insert that splits the first leaf, a
    remove that merges the first two leaves, a Set with a large value *)
Definition c03_ex_c := set_threshold 256.
Definition c03_ex_appends : list aop :=
  map (fun k => let z := Z.of_nat k in
                if (Nat.eqb k 7 || Nat.eqb k 33)%bool then OAppend (mkelem z 19 1)
                else OAppend (mkelem z (30 + N.of_nat (Nat.modulo k 5) * 17) 0)) (seq 0 60).
Definition c03_ex_a60 := fst (a_run c03_ex_c (fst (arr_init 1 0)) c03_ex_appends).
Definition c03_ex_a61 := fst (a_run c03_ex_c c03_ex_a60 [OInsert 0 (mkelem 100 98 0)]).
Definition c03_ex_a57 := fst (a_run c03_ex_c c03_ex_a60 [ORemove 0; ORemove 0]).

Example C03_array_example :
  (let '(a', _, lg) := a_step c03_ex_c c03_ex_a61 (OInsert 0 (mkelem 101 98 0)) in
   lg = [WStore 2; WStore 2; WStore 21; WStore 1] /\
   tree_ids (a_root a') = [1; 2; 21; 3; 5; 6; 7; 8; 9; 10; 11; 13; 14; 15; 16; 17; 18; 19; 20] /\
   map (last_ev lg) [1; 2; 3; 21] = [Some EvStore; Some EvStore; None; Some EvStore]) /\
  (let '(a', _, lg) := a_step c03_ex_c c03_ex_a57 (ORemove 0) in
   lg = [WStore 2; WStore 2; WStore 1; WRemove 3; WStore 1] /\
   tree_ids (a_root a') = [1; 2; 5; 6; 7; 8; 9; 10; 11; 13; 14; 15; 16; 17; 18; 19; 20] /\
   map (last_ev lg) [1; 2; 3; 5] = [Some EvStore; Some EvStore; Some EvRemove; None]) /\
  (let '(a', out, lg) := a_step c03_ex_c c03_ex_a60 (OSet 7 (mkelem 200 19 1)) in
   lg = [WStore 21; WStore 3; WStore 1] /\ back_of (OSet 7 (mkelem 200 19 1)) out = [4] /\
   node_at (a_root a') 21 = None /\ ext_ids (to_list (a_root a')) = [21; 12]).
Proof. vm_compute. repeat split. Qed.

Print Assumptions C03_array_frame.
